"""
Tie C for the string-level model of FormatConstraintExpressionBuilder (coq/Model/FcString.v, coq/Corr/FcString.v): single calls of the builder on
the objects the transformer hands it, with `self` strings that are renderings of builder-made expressions AND arbitrary strings (other brackets,
white space of every kind, digits of other scripts), and the two primitives (the compiled pattern's sub, str.strip) on arbitrary strings.
"""
from vlib import runner
from vlib.runner import gopt, gtext

IMPORTS = "From Ahb Require Import Model.Prelude Model.Grammar Gen.Gen_logic Model.EvalRC Model.FcString Corr.FcString."
ALPHABET = ["(", ")", "[", "]", " ", " ", "U", "O", "X", "9", "0", "1", "5", "\t", "\n", "\xa0", " ", "٣", "१", "１", "a", "P", ".", "\x1c", "　", "\x85"]


def _rand_built(rng, depth=0):
    """a string the builder itself could have written"""
    if depth > 2 or rng.random() < 0.4:
        return f"[{rng.randint(901, 999)}]"
    a, b = _rand_built(rng, depth + 1), _rand_built(rng, depth + 1)
    a = a if a.startswith("[") and a.count("[") == 1 else f"({a})"
    b = b if b.startswith("[") and b.count("[") == 1 else f"({b})"
    if rng.random() < 0.15:
        a = f"({a})"      # brackets one pass of the substitution leaves behind
    return f"{a} {rng.choice('UOX')} {b}"


def _rand_string(rng):
    r = rng.random()
    if r < 0.45:
        return _rand_built(rng)
    if r < 0.6:
        s = _rand_built(rng)
        i = rng.randrange(len(s) + 1)
        return s[:i] + rng.choice(ALPHABET) + s[i:]
    if r < 0.7:
        return rng.choice(["", " ", "([1])", "(([1]))", "( [1])", "([1] )", "([])", "([1][2])", "([٣])", "([1٣])", "([12]", "[12])", "()", "(", "([1])([2])", " ([7]) ",
                           "\t([7])\n", "\xa0([7])\xa0", "([7])　", "\x1c[1]", "x([1])y", "(([1])) U ([2])", "([1]) U ([2]) U ([3])"])
    return "".join(rng.choice(ALPHABET) for _ in range(rng.randint(1, 14)))


def builder_correspondence(ctx):
    from vlib import impl  # noqa: F401
    import ahbicht.content_evaluation  # noqa: F401
    from ahbicht.expressions.expression_builder import FormatConstraintExpressionBuilder as B
    from ahbicht.models.condition_nodes import ConditionFulfilledValue as V, EvaluatedComposition, Hint, RequirementConstraint, UnevaluatedFormatConstraint

    rng = ctx.rng
    KIND = {"KFc": lambda key, fcx: UnevaluatedFormatConstraint(condition_key=key),
            "KEc": lambda key, fcx: EvaluatedComposition(conditions_fulfilled=V.FULFILLED, format_constraints_expression=fcx),
            "KRc": lambda key, fcx: RequirementConstraint(condition_key=key, conditions_fulfilled=V.FULFILLED),
            "KHint": lambda key, fcx: Hint(condition_key=key, hint="h")}
    OPS = {"LU": "land", "LO": "lor", "LX": "xor"}
    conn, init, prim = [], [], []
    meta = []
    for _ in range(700 if ctx.quick else 12000):
        self_s = None if rng.random() < 0.15 else _rand_string(rng)
        kd = rng.choice(["KFc", "KFc", "KEc", "KEc", "KRc", "KHint"])
        key = str(rng.randint(901, 999)) if rng.random() < 0.9 else rng.choice(["1", "007", "٣", "12a", ""])
        fcx = None if kd != "KEc" or rng.random() < 0.2 else _rand_string(rng)
        op = rng.choice(list(OPS))
        other = KIND[kd](key, fcx)
        b = B(self_s)
        got = getattr(b, OPS[op])(other).get_expression()
        conn.append(f"({op}, {gopt(self_s, gtext)}, {kd}, {gtext(key)}, {gopt(fcx, gtext)}, {gopt(got, gtext)})")
        meta.append(("connect", op, self_s, kd, key, fcx, got))
        got0 = B(other).get_expression()
        init.append(f"({kd}, {gtext(key)}, {gopt(fcx, gtext)}, {gopt(got0, gtext)})")
        ctx.dist("builder.self", "none" if self_s is None else "empty" if self_s == "" else "string")
        ctx.dist("builder.other", kd)
    pat = B._one_key_surrounded_by_brackets_pattern  # pylint: disable=protected-access
    strs = [_rand_string(rng) for _ in range(500 if ctx.quick else 8000)]
    for s in strs:
        prim.append(f"({gtext(s)}, {gtext(pat.sub(r'\g<body>', s))}, {gtext(s.strip())})")
    out = {}
    for tag, ctype, chk, terms in (("C07_fcs", "fcs_case", "fcs_check", conn), ("C07_fcsinit", "fcsinit_case", "fcsinit_check", init), ("C07_str", "str_case", "str_check", prim)):
        n, bad, err = runner.run_case_files(tag, IMPORTS, ctype, chk, terms, shard=300)
        if err:
            ctx.broke(f"correspondence ({ctype}) could not be evaluated in Coq", err)
        for i in bad[:8]:
            ctx.broke(f"correspondence mismatch ({ctype}): the string-level builder model and FormatConstraintExpressionBuilder differ", terms[i][:600])
        out[ctype] = {"cases": n, "mismatches": len(bad)}
        ctx.add_eval(n)
    ctx.notes.setdefault("correspondence", {})["string_builder"] = out
    return out
