"""
Confirm a seeded change independently and import it:  /venv/bin/python -m vlib.seed_import C13 [name]
In a fresh scratch worktree of /repo: the patch applies, the whole suite passes with it, the demonstration fails with it and
passes without it. Then copies patch.diff, demo.py, meta.json (+ what was run) to /verif/seeded/<name>/.
"""
import json
import os
import shutil
import subprocess
import sys

ROOT = os.path.dirname(os.path.dirname(os.path.abspath(__file__)))


def sh(cmd, **kw):
    return subprocess.run(cmd, shell=True, capture_output=True, text=True, **kw)


def main(src_id, name=None):
    name = name or src_id
    src = f"/tmp/seed_out/{src_id}"
    wt = f"/tmp/verify_{name}"
    sh(f"git -C /repo worktree remove --force {wt}")
    r = sh(f"git -C /repo worktree add -f {wt} HEAD")
    ran = {}
    try:
        a = sh(f"git -C {wt} apply {src}/patch.diff")
        ran["git apply"] = a.returncode
        if a.returncode != 0:
            print("patch does not apply", a.stderr)
            return 1
        env = f"cd {wt} && PYTHONPATH={wt}/src:{wt} PYTHONHASHSEED=0"
        t = sh(f"{env} /venv/bin/python -m pytest -q -p no:cacheprovider --timeout=900 2>&1 | tail -1")
        ran["suite with change"] = t.stdout.strip()
        d1 = sh(f"{env} timeout 600 /venv/bin/python {src}/demo.py")
        ran["demo with change"] = {"exit": d1.returncode, "tail": d1.stdout.strip().splitlines()[-3:]}
        sh(f"git -C {wt} checkout -- .")
        d0 = sh(f"{env} timeout 600 /venv/bin/python {src}/demo.py")
        ran["demo without change"] = {"exit": d0.returncode, "tail": d0.stdout.strip().splitlines()[-2:]}
    finally:
        sh(f"git -C /repo worktree remove --force {wt}")
    ok = "532 passed" in ran["suite with change"] and ran["demo with change"]["exit"] != 0 and ran["demo without change"]["exit"] == 0
    print(json.dumps(ran, indent=1))
    if not ok:
        print("NOT confirmed")
        return 1
    dst = os.path.join(ROOT, "seeded", name)
    os.makedirs(dst, exist_ok=True)
    shutil.copy(f"{src}/patch.diff", dst)
    shutil.copy(f"{src}/demo.py", dst)
    meta = json.load(open(f"{src}/meta.json"))
    meta["property"] = meta.get("property", src_id)
    meta["confirmed_in_scratch_worktree"] = ran
    json.dump(meta, open(os.path.join(dst, "meta.json"), "w"), indent=1, ensure_ascii=False)
    print("imported to", dst)
    return 0


if __name__ == "__main__":
    sys.exit(main(*sys.argv[1:]))
