"""Gen_pool: validate_data_element_valuepool as a TABLE read off the loaded code (tie T for `validate_valuepool` of Model/Validate.v).

Executed for every value pool of 0..3 entries whose expressions come out fulfilled / unfulfilled / invalid (and one pool with a repeated qualifier),
every entered input (absent, empty, each qualifier, a value that is no qualifier) and the three statuses of the segment. The rows record status, the
flag for an unexpected value, the hint text and the offered values (qualifier and meaning, in order), or the exception class; Proofs/C17_gen.v compares
them with the model by vm_compute."""
import asyncio
import itertools

from vlib.translate import HEADER, gtext

MODES = {"F": "Muss[1]", "U": "Muss[2]", "I": "Muss[1] O [501]"}


def generate():
    from vlib import evalimpl, impl
    import ahbicht.content_evaluation  # noqa: F401
    from maus.models.edifact_components import DataElementValuePool, ValuePoolEntry
    from ahbicht.models.validation_values import RequirementValidationValue as R
    from ahbicht.validation.validation import validate_data_element_valuepool

    def gopt(x, f):
        return "None" if x is None else f"(Some {f(x)})"

    rows = []
    evalimpl.set_cer(rc={"1": "FULFILLED", "2": "UNFULFILLED"}, hints={"501": "H"}, fc={})
    try:
        pools = [()] + [p for n in (1, 2, 3) for p in itertools.product("FUI", repeat=n)]
        for pool in pools:
            for dup in ((False, True) if len(pool) == 3 else (False,)):
                quals = [f"Q{i}" for i in range(len(pool))]
                if dup:
                    quals[2] = "Q0"   # the same qualifier twice: possible_values is a dict
                entries = [(q, f"m{i}", m) for i, (q, m) in enumerate(zip(quals, pool))]
                for inp in [None, "", "ZZ"] + sorted(set(quals)):
                    for req in ("IS_REQUIRED", "IS_OPTIONAL", "IS_FORBIDDEN"):
                        de = DataElementValuePool(discriminator="d", value_pool=[ValuePoolEntry(qualifier=q, meaning=me, ahb_expression=MODES[m]) for q, me, m in entries],
                                                  entered_input=inp, data_element_id="0002")
                        try:
                            v = asyncio.run(validate_data_element_valuepool(de, R[req])).validation_result
                            pv = "None" if v.possible_values is None else "(Some [" + "; ".join(f"({gtext(k)}, {gtext(x)})" for k, x in v.possible_values.items()) + "])"
                            res = f"Ok ({v.requirement_validation.name}, {str(bool(v.format_validation_fulfilled)).lower()}, {gopt(v.hints, gtext)}, {pv})"
                        except BaseException as e:  # pylint: disable=broad-except
                            if isinstance(e, (KeyboardInterrupt, SystemExit, MemoryError)):
                                raise
                            res = f"Exn {impl.exc_class(e)}"
                        gpool = "[" + "; ".join(f"({gtext(q)}, {gtext(me)}, Pm{m})" for q, me, m in entries) + "]"
                        rows.append(f"  ({gpool}, {gopt(inp, gtext)}, {req}, {res})")
    finally:
        evalimpl.set_cer()
    return (HEADER.format(src="validation/validation.py (validate_data_element_valuepool, executed)")
            + "From Ahb Require Import Gen.Gen_valmaps.\n"
            "(* how an entry's own expression comes out: fulfilled / unfulfilled / invalid *)\n"
            "Inductive pmode := PmF | PmU | PmI.\n"
            "(* pool (qualifier, meaning, outcome of the entry's expression), entered input, status of the segment -> status, no unexpected value, hint, offered values *)\n"
            "Definition pool_rows : list (list (text * text * pmode) * option text * rvv * result (rvv * bool * option text * option (list (text * text)))) := [\n"
            + ";\n".join(rows) + "\n].\n")
