"""
Independent Python reading of the documented precedence (oracle for C01/C02/C10): tokens -> flattened tree.
Tokens: ('A', text) | 'O' | 'X' | 'U' | '(' | ')'.  Flattened tree: ('A', text) | (op, [children]) with op in or/xor/and/then.
"""
LEVELS = [("O", "or"), ("X", "xor"), ("U", "and")]


class Reject(Exception):
    pass


def parse(tokens):
    pos = 0

    def peek():
        return tokens[pos] if pos < len(tokens) else None

    def level(i):
        nonlocal pos
        if i == 3:
            return juxta()
        sym, name = LEVELS[i]
        args = [level(i + 1)]
        while peek() == sym:
            pos += 1
            args.append(level(i + 1))
        return args[0] if len(args) == 1 else mk(name, args)

    def juxta():
        args = [primary()]
        while peek() is not None and (peek() == "(" or isinstance(peek(), tuple)):
            args.append(primary())
        return args[0] if len(args) == 1 else mk("then", args)

    def primary():
        nonlocal pos
        t = peek()
        if t == "(":
            pos += 1
            e = level(0)
            if peek() != ")":
                raise Reject("unbalanced")
            pos += 1
            return e
        if isinstance(t, tuple):
            pos += 1
            return t
        raise Reject(f"unexpected {t!r}")

    def mk(name, args):
        out = []
        for a in args:
            if a[0] == name:
                out += a[1]
            else:
                out.append(a)
        return (name, out)

    e = level(0)
    if pos != len(tokens):
        raise Reject("trailing")
    return e


UN = {"or_composition": "or", "xor_composition": "xor", "and_composition": "and", "then_also_composition": "then"}


def flat_lark(tree):
    """flattening of a Lark tree of the condition grammar (atoms as ('A', text of the atom's tokens))"""
    if tree.data in UN:
        name = UN[tree.data]
        out = []
        for c in tree.children:
            f = flat_lark(c)
            if f[0] == name:
                out += f[1]
            else:
                out.append(f)
        return (name, out)
    return ("A", tree.data + ":" + "|".join(str(t) for t in tree.children))
