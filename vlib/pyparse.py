"""
Independent Python reading of the documented precedence (oracle for C01/C02/C10): tokens -> flattened tree.
Tokens: ('A', text) | 'O' | 'X' | 'U' | '(' | ')'.  Flattened tree: ('A', text) | (op, [children]) with op in or/xor/and/then.
"""
LEVELS = [("O", "or"), ("X", "xor"), ("U", "and")]


class Reject(Exception):
    pass


def parse(tokens):
    pos = 0

    def peek():
        return tokens[pos] if pos < len(tokens) else None

    def level(i):
        nonlocal pos
        if i == 3:
            return juxta()
        sym, name = LEVELS[i]
        args = [level(i + 1)]
        while peek() == sym:
            pos += 1
            args.append(level(i + 1))
        return args[0] if len(args) == 1 else mk(name, args)

    def juxta():
        args = [primary()]
        while peek() is not None and (peek() == "(" or isinstance(peek(), tuple)):
            args.append(primary())
        return args[0] if len(args) == 1 else mk("then", args)

    def primary():
        nonlocal pos
        t = peek()
        if t == "(":
            pos += 1
            e = level(0)
            if peek() != ")":
                raise Reject("unbalanced")
            pos += 1
            return e
        if isinstance(t, tuple):
            pos += 1
            return t
        raise Reject(f"unexpected {t!r}")

    def mk(name, args):
        out = []
        for a in args:
            if a[0] == name:
                out += a[1]
            else:
                out.append(a)
        return (name, out)

    e = level(0)
    if pos != len(tokens):
        raise Reject("trailing")
    return e


UN = {"or_composition": "or", "xor_composition": "xor", "and_composition": "and", "then_also_composition": "then"}


def flat_lark(tree):
    """flattening of a Lark tree of the condition grammar (atoms as ('A', text of the atom's tokens))"""
    if tree.data in UN:
        name = UN[tree.data]
        out = []
        for c in tree.children:
            f = flat_lark(c)
            if f[0] == name:
                out += f[1]
            else:
                out.append(f)
        return (name, out)
    return ("A", tree.data + ":" + "|".join(str(t) for t in tree.children))


# ------------------------------------------------------------------ characters -> tokens (independent reading of the documented lexical rules)
WS = " \t\f\r\n"
OPS = {"U": "U", "u": "U", "∧": "U", "O": "O", "o": "O", "∨": "O", "X": "X", "x": "X", "⊻": "X"}
ASCII_DIGITS = "0123456789"


def tokenize(s):
    """tokens of s per the documented language: keys [n], packages [nP] / [nPa..b], time conditions [UB1..3], round brackets, U/O/X (either
    letter case) and their symbols, ASCII white space between tokens and inside the square brackets. Raises Reject for anything else; returns None
    when the string is outside what the documentation fixes (a repeatability written with non-ASCII decimal digits)."""
    toks, i, n = [], 0, len(s)

    def skip(j):
        while j < n and s[j] in WS:
            j += 1
        return j

    def digits(j):
        k = j
        while k < n and s[k] in ASCII_DIGITS:
            k += 1
        return k

    while True:
        i = skip(i)
        if i >= n:
            return toks
        c = s[i]
        if c in "()":
            toks.append(c)
            i += 1
        elif c in OPS:
            toks.append(OPS[c])
            i += 1
        elif c == "[":
            j = skip(i + 1)
            if s.startswith("UB", j) and j + 2 < n and s[j + 2] in "123":
                text, j = s[j:j + 3], j + 3
            else:
                k = digits(j)
                if k == j:
                    raise Reject("no key after [")
                text, j = s[j:k], k
                if j < n and s[j] == "P":
                    text, j = text + "P", j + 1
                    k = skip(j)
                    if k < n and s[k] != "]":
                        # optional repeatability a..b with b not starting with 0
                        m = k
                        while m < n and s[m].isdecimal():
                            m += 1
                        if m == k or not s.startswith("..", m) or m + 2 >= n or not s[m + 2].isdecimal() or s[m + 2] in "0٠":
                            raise Reject("malformed repeatability")
                        e = m + 2
                        while e < n and s[e].isdecimal():
                            e += 1
                        if any(ch not in ASCII_DIGITS for ch in s[k:m] + s[m + 2:e]):
                            return None
                        text, j = text + s[k:e], e
            j = skip(j)
            if j >= n or s[j] != "]":
                raise Reject("missing ]")
            toks.append(("A", text))
            i = j + 1
        else:
            raise Reject(f"unexpected character {c!r}")


def accepts(s):
    """True / False per the documented language, None if the documentation does not fix it"""
    try:
        toks = tokenize(s)
    except Reject:
        return False
    if toks is None:
        return None
    try:
        parse(toks)
        return True
    except Reject:
        return False


# ------------------------------------------------------------------ AHB expressions (independent reading of the documented forms)
MODAL_SPELLINGS = ("muss", "soll", "kann", "m", "s", "k")


def ahb_accepts(s):
    """True if s is an AHB expression of one of the documented forms -- one or more modal-mark parts (M/Muss, S/Soll, K/Kann in any letter case, each
    followed by a condition expression of the documented language), optionally ending in a bare modal mark; one prefix-operator part (X/O/U in any
    letter case followed by a condition expression); a bare indicator. None whenever the documentation does not fix the verdict for s (this function
    never says False: what must be rejected is judged elsewhere)."""
    if not isinstance(s, str) or not s:
        return None
    if s in ("X", "O", "U", "x", "o", "u"):
        return True
    if s[0] in "XOUxou":
        return True if accepts(s[1:]) is True else None
    i, n, parts = 0, len(s), 0
    while i < n:
        low = s[i:i + 4].lower()
        m = next((sp for sp in MODAL_SPELLINGS if low.startswith(sp)), None)
        if m is None or not s[i:i + len(m)].isascii():
            return None
        i += len(m)
        j = i
        while j < n and s[j] not in "MSKmsk":
            j += 1
        cond = s[i:j]
        if cond == "":
            # a bare modal mark: only as the very last thing
            return True if j == n else None
        if accepts(cond) is not True:
            return None
        parts += 1
        i = j
    return True if parts else None


def ahb_must_reject(s):
    """True if s cannot be an AHB expression of any documented form although it begins like one: it starts with a prefix operator (X/O/U in either
    case) -- so the rest has to be ONE condition expression -- but a modal-mark letter (M, S, K in either case: never part of a condition
    expression) follows somewhere. None otherwise (what else must be rejected is judged by the part-wise oracle)."""
    if isinstance(s, str) and len(s) > 1 and s[0] in "XOUxou" and any(c in "MSKmsk" for c in s[1:]):
        return True
    return None
