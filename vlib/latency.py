"""
Requirement-constraint evaluation with evaluators that really suspend: user-supplied asynchronous evaluate_<key> methods and hint providers that
`await asyncio.sleep(0)` a prescribed number of times per key (latency profiles: one key slower than the others, all equally slow, mixed). The
reported outcome must be the one obtained when nothing suspends -- and that one is judged against the compositional semantics by the caller.
Implementation-side oracle (uses the harness of C12); run it LAST in a check, it re-configures the injector.
"""
from vlib import exprs


def rc_latency_oracle(ctx, cases, n_expr, how):
    """cases: [(tree, rho)] of the evaluation corpus; picks n_expr valid in-domain ones with >= 2 requirement keys of different state"""
    from vlib import evalimpl
    from vlib.props import c12

    picked, seen = [], set()
    order = list(range(len(cases)))
    ctx.rng.shuffle(order)
    for i in order:
        t, rho = cases[i]
        if len(picked) >= n_expr:
            break
        if not (exprs.dom(t) and exprs.valid(t)) or exprs.size(t) < 2:
            continue
        rcs = [k for k in set(exprs.leaves(t)) if exprs.kind(k) == "rc"]
        if len(rcs) < 2 or len({rho[k] for k in rcs}) < 2:
            continue
        key = (exprs.show(t), tuple(sorted(rho.items())))
        if key in seen:
            continue
        seen.add(key)
        picked.append((t, rho))
    n = 0
    for t, rho in picked:
        expr = exprs.to_string(t)
        hints = {k: f"H{k}" for k in set(exprs.leaves(t)) if exprs.kind(k) == "hint"}
        sc = c12.sc_rc("latency", expr, dict(rho), hints)
        m = len(sc.slots)
        base = sc.run([0] * m)[0]
        if "|LEAK" in base:
            ctx.fail(f"latency|{expr}|{tuple(sorted(rho.items()))}|other-version", {"kind": "latency", "expression": expr, "rc": rho, "hints": hints},
                     "only the evaluator registered for the format version in use is asked", base[-300:],
                     "oracle: an evaluator registered for another format version next to the one in use does not take part")
            continue
        profiles = [[1] * m] + [[3 if j == i else 0 for j in range(m)] for i in range(m)] + [[ctx.rng.randint(0, 3) for _ in range(m)] for _ in range(2)]
        for vec in profiles:
            got = sc.run(vec)[0]
            n += 1
            if got != base:
                ctx.fail(f"latency|{expr}|{tuple(sorted(rho.items()))}|{vec}", {"kind": "latency", "expression": expr, "rc": rho, "hints": hints,
                                                                               "suspensions_per_awaitable": dict(zip([str(s) for s in sc.slots], vec))},
                         f"as when no evaluator suspends: {base[:300]}", got[:300], how)
                break
    c12._H = None  # pylint: disable=protected-access
    evalimpl._configured = False  # pylint: disable=protected-access
    return n


def fc_latency_oracle(ctx, collected, how, n_max=40):
    """collected: [(format-constraint expression string, [fc keys])]; format_constraint_evaluation with user-supplied asynchronous evaluate_<key> methods
    that suspend a prescribed number of times per key occurrence. Whatever the latencies, the verdict is the Boolean value of the expression under the
    truth assignment the evaluators implement (and the one obtained when nothing suspends)."""
    from ahbicht.expressions.condition_expression_parser import parse_condition_expression_to_tree

    from vlib import evalimpl
    from vlib.props import c12

    n, done = 0, set()
    for expr, keys in collected:
        keys = sorted(set(keys))
        if len(done) >= n_max:
            break
        if len(keys) < 2 or len(keys) > 4 or expr in done or any(k not in c12.FC_KEYS for k in keys):
            continue
        done.add(expr)
        tree = exprs.from_lark(parse_condition_expression_to_tree(expr))
        for bits in range(1, 2 ** len(keys) - 1):   # assignments that are not constant
            beta = {k: bool(bits >> i & 1) for i, k in enumerate(keys)}
            expected = {k: ("abc" if beta[k] else "something else") for k in keys}
            sc = c12.sc_fc("latency-fc", [("abc", expr)], expected)
            m = len(sc.slots)
            want = exprs.beval(tree, beta)
            profiles = [[0] * m, [1] * m] + [[3 if j == i else 0 for j in range(m)] for i in range(m)] + [[(m - j) % 4 for j in range(m)], [j % 4 for j in range(m)]]
            for vec in profiles:
                out = sc.run(vec)[0]
                n += 1
                if ("|LEAK" in out) or (f"format_constraints_fulfilled={want}" not in out.split("|LEAK")[0]):
                    ctx.fail(f"latency-fc|{expr}|{sorted(beta.items())}|{vec}", {"kind": "latency-fc", "expression": expr, "fc": beta,
                                                                                  "suspensions_per_awaitable": dict(zip([str(s) for s in sc.slots], vec))},
                             f"format_constraint_evaluation gives {want} (the Boolean value under this assignment), whatever the latencies", out[:300], how)
                    break
    c12._H = None  # pylint: disable=protected-access
    evalimpl._configured = False  # pylint: disable=protected-access
    return n


def pkg_latency_oracle(ctx, how):
    """package expansion with a resolver that really suspends (different latencies per package occurrence): every occurrence is replaced by ITS package"""
    from vlib import evalimpl
    from vlib.props import c12

    n = 0
    for name, items, prefix in (("lat-pkg1", ["1P", "8", "2P"], ""), ("lat-pkg2", ["1P", "2P", "3P"], "Muss "), ("lat-pkg3", ["9", "3P", "1P", "3P"], ""),
                                ("lat-pkg4", ["3P", "1P", "8", "2P"], ""), ("lat-pkg5", ["1P", "2P", "1P", "3P", "2P"], "")):
        sc = c12.sc_pkg(name, items, prefix=prefix)
        m = len(sc.slots)
        base = sc.run([0] * m)[0]
        profiles = [[1] * m] + [[3 if j == i else 0 for j in range(m)] for i in range(m)] + [[(m - j) % 4 for j in range(m)], [j % 4 for j in range(m)]]
        for vec in [[0] * m] + profiles:
            got = sc.run(vec)[0]
            n += 1
            if sc.problem is not None or got != base:
                ctx.fail(f"latency-pkg|{sc.params['expression']}|{vec}", {"kind": "latency-pkg", "expression": sc.params["expression"], "packages": sc.params["packages"],
                                                                         "suspensions_per_awaitable": dict(zip([str(s) for s in sc.slots], vec))},
                         f"every package occurrence replaced by its own package: {sc.problem[0] if sc.problem else base[:200]}", f"{sc.problem[1] if sc.problem else got[:200]}", how)
                break
    c12._H = None  # pylint: disable=protected-access
    evalimpl._configured = False  # pylint: disable=protected-access
    return n
