"""
Requirement-constraint evaluation with evaluators that really suspend: user-supplied asynchronous evaluate_<key> methods and hint providers that
`await asyncio.sleep(0)` a prescribed number of times per key (latency profiles: one key slower than the others, all equally slow, mixed). The
reported outcome must be the one obtained when nothing suspends -- and that one is judged against the compositional semantics by the caller.
Implementation-side oracle (uses the harness of C12); run it LAST in a check, it re-configures the injector.
"""
from vlib import exprs


def rc_latency_oracle(ctx, cases, n_expr, how):
    """cases: [(tree, rho)] of the evaluation corpus; picks n_expr valid in-domain ones with >= 2 requirement keys of different state"""
    from vlib import evalimpl
    from vlib.props import c12

    picked, seen = [], set()
    order = list(range(len(cases)))
    ctx.rng.shuffle(order)
    for i in order:
        t, rho = cases[i]
        if len(picked) >= n_expr:
            break
        if not (exprs.dom(t) and exprs.valid(t)) or exprs.size(t) < 2:
            continue
        rcs = [k for k in set(exprs.leaves(t)) if exprs.kind(k) == "rc"]
        if len(rcs) < 2 or len({rho[k] for k in rcs}) < 2:
            continue
        key = (exprs.show(t), tuple(sorted(rho.items())))
        if key in seen:
            continue
        seen.add(key)
        picked.append((t, rho))
    n = 0
    for t, rho in picked:
        expr = exprs.to_string(t)
        hints = {k: f"H{k}" for k in set(exprs.leaves(t)) if exprs.kind(k) == "hint"}
        sc = c12.sc_rc("latency", expr, dict(rho), hints)
        m = len(sc.slots)
        base = sc.run([0] * m)[0]
        if "|LEAK" in base:
            ctx.fail(f"latency|{expr}|{tuple(sorted(rho.items()))}|other-version", {"kind": "latency", "expression": expr, "rc": rho, "hints": hints},
                     "only the evaluator registered for the format version in use is asked", base[-300:],
                     "oracle: an evaluator registered for another format version next to the one in use does not take part")
            continue
        profiles = [[1] * m] + [[3 if j == i else 0 for j in range(m)] for i in range(m)] + [[ctx.rng.randint(0, 3) for _ in range(m)] for _ in range(2)]
        for vec in profiles:
            got = sc.run(vec)[0]
            n += 1
            if got != base:
                ctx.fail(f"latency|{expr}|{tuple(sorted(rho.items()))}|{vec}", {"kind": "latency", "expression": expr, "rc": rho, "hints": hints,
                                                                               "suspensions_per_awaitable": dict(zip([str(s) for s in sc.slots], vec))},
                         f"as when no evaluator suspends: {base[:300]}", got[:300], how)
                break
    c12._H = None  # pylint: disable=protected-access
    evalimpl._configured = False  # pylint: disable=protected-access
    return n
