"""
Tie T for C19: reads the marshmallow Schema classes and the attrs classes they (de)serialise from the *source*
(ast, never importing ahbicht) and writes the descriptors of coq/Gen/Gen_schemas.v (types of coq/Model/Json.v).

Per schema: the field list with (kind, allow_none= as written, required, load_default, dump_default, data_key, nested
schema) and the hooks, recognised structurally (body compared with a template after extracting the names):
  HConstruct      @post_load returning Cls(**data)
  HCerConstruct   ContentEvaluationResultSchema.deserialize (enum coercion of one dict, then Cls(**data))
  HReqInd         RequirementIndicatorSchema (pre_load wraps, post_load tries two enum classes, post_dump upper())
Per attrs class: every attribute with its annotation (declared type), the attrs validator expression and the default.
Fail closed: any field class, keyword, decorator, statement, validator, regex or hook body that is not recognised raises
Untranslatable (the run then counts the obligation as broken).  The effective allow_none is NOT computed here: the
defaulting rule of marshmallow (Field.__init__) is part of the model (Json.allow_none) and is compared with the
imported schema objects by the check (vlib/props/c19.py).
"""
import ast
import os

from vlib.py2coq import Untranslatable

REPO = os.environ.get("VERIF_REPO", "/repo")
SRC = os.path.join(REPO, "src", "ahbicht")

FILES = ["models/enums.py", "models/condition_nodes.py", "models/content_evaluation_result.py",
         "models/categorized_key_extract.py", "models/evaluation_results.py"]
SCHEMAS = ["EvaluatedFormatConstraintSchema", "ContentEvaluationResultSchema", "CategorizedKeyExtractSchema",
           "RequirementConstraintEvaluationResultSchema", "FormatConstraintEvaluationResultSchema",
           "AhbExpressionEvaluationResultSchema"]
REGEXES = {r"^\d+P$": "RePackageKey", r"^UB(?:1|2|3)$": "ReTimeCond"}
FIELD_KINDS = {"Boolean": "FBool", "String": "FStr", "UUID": "FUuid", "List": "FList", "Dict": "FDict", "Nested": "FNested"}


def gtext(s):
    if s == "":
        return "(@nil N)"
    return "[" + ";".join(str(ord(c)) for c in s) + "]%N"


def norm(node):
    return ast.dump(node, annotate_fields=True, include_attributes=False)


def strip_doc(body):
    if body and isinstance(body[0], ast.Expr) and isinstance(body[0].value, ast.Constant) and isinstance(body[0].value.value, str):
        return body[1:]
    return body


def dotted(e):
    if isinstance(e, ast.Name):
        return e.id
    if isinstance(e, ast.Attribute):
        return dotted(e.value) + "." + e.attr
    raise Untranslatable(f"not a dotted name: {ast.dump(e)}")


class World:
    """all classes / aliases of the model files by name"""

    def __init__(self):
        self.classes = {}   # name -> (ClassDef, file)
        self.aliases = {}   # name -> value expr
        for rel in FILES:
            path = os.path.join(SRC, rel)
            with open(path, encoding="utf-8") as f:
                mod = ast.parse(f.read())
            for st in mod.body:
                if isinstance(st, ast.ClassDef):
                    if st.name in self.classes:
                        raise Untranslatable(f"class {st.name} defined twice")
                    self.classes[st.name] = (st, rel)
                elif isinstance(st, ast.Assign) and len(st.targets) == 1 and isinstance(st.targets[0], ast.Name):
                    self.aliases[st.targets[0].id] = st.value

    # ------------------------------------------------------------ enums
    def is_enum(self, name):
        if name not in self.classes:
            return False
        bases = [dotted(b) for b in self.classes[name][0].bases]
        return bases == ["StrEnum"] or bases == ["str", "Enum"]

    def enum_members(self, name):
        cd = self.classes[name][0]
        bases = [dotted(b) for b in cd.bases]
        members = []
        has_str = False
        for st in strip_doc(cd.body):
            if isinstance(st, ast.Assign) and len(st.targets) == 1 and isinstance(st.targets[0], ast.Name):
                if not (isinstance(st.value, ast.Constant) and isinstance(st.value.value, str)):
                    raise Untranslatable(f"enum {name}: member {st.targets[0].id} is not a string constant")
                members.append(st.value.value)
            elif isinstance(st, ast.Expr) and isinstance(st.value, ast.Constant):
                continue  # attribute docstring
            elif isinstance(st, ast.FunctionDef):
                if st.name == "__str__":
                    body = strip_doc(st.body)
                    if len(body) == 1 and norm(body[0]) == norm(ast.parse("return self.value").body[0]):
                        has_str = True
                    else:
                        raise Untranslatable(f"enum {name}: __str__ is not `return self.value`")
                elif st.name in ("__new__", "_missing_", "__eq__", "__hash__", "upper", "__getattribute__", "__format__"):
                    raise Untranslatable(f"enum {name}: defines {st.name}")
            else:
                raise Untranslatable(f"enum {name}: unexpected statement {type(st).__name__}")
        if bases == ["str", "Enum"] and not has_str:
            raise Untranslatable(f"enum {name}: (str, Enum) without __str__ returning the value (String fields dump str(x))")
        for m in members:
            if not m.isascii():
                raise Untranslatable(f"enum {name}: non-ASCII member value {m!r} (upper() is modelled for ASCII)")
        if len(set(members)) != len(members):
            raise Untranslatable(f"enum {name}: duplicate values")
        return members

    def enum_alts(self, name):
        """name of an enum class or of a Union alias of enum classes -> [(class, members)] or None"""
        if self.is_enum(name):
            return [(name, self.enum_members(name))]
        if name in self.aliases:
            v = self.aliases[name]
            if isinstance(v, ast.Subscript) and dotted(v.value) == "Union" and isinstance(v.slice, ast.Tuple):
                names = [dotted(e) for e in v.slice.elts]
                if all(self.is_enum(n) for n in names):
                    return [(n, self.enum_members(n)) for n in names]
        return None

    # ------------------------------------------------------------ attrs classes
    def is_attrs(self, name):
        if name not in self.classes:
            return False
        for d in self.classes[name][0].decorator_list:
            if isinstance(d, ast.Call) and dotted(d.func) == "attrs.define":
                return True
        return False

    def annotation(self, e):
        """-> nested tuple: ('bool',) ('str',) ('uuid',) ('enum', alts) ('opt', t) ('list', t) ('dict', k, v) ('obj', name)"""
        if isinstance(e, ast.Name):
            if e.id == "bool":
                return ("bool",)
            if e.id == "str":
                return ("str",)
            if e.id == "UUID":
                return ("uuid",)
            alts = self.enum_alts(e.id)
            if alts is not None:
                return ("enum", alts)
            if self.is_attrs(e.id):
                return ("obj", e.id)
            raise Untranslatable(f"annotation: unknown name {e.id}")
        if isinstance(e, ast.Subscript):
            head = dotted(e.value)
            if head == "Optional":
                return ("opt", self.annotation(e.slice))
            if head == "List":
                return ("list", self.annotation(e.slice))
            if head == "Dict" and isinstance(e.slice, ast.Tuple) and len(e.slice.elts) == 2:
                return ("dict", self.annotation(e.slice.elts[0]), self.annotation(e.slice.elts[1]))
        raise Untranslatable(f"annotation not understood: {ast.unparse(e)}")

    def validator(self, e):
        """attrs validator expression -> nested tuple mirroring Json.vld"""
        if not isinstance(e, ast.Call):
            raise Untranslatable(f"validator is not a call: {ast.unparse(e)}")
        fn = dotted(e.func)
        if not fn.startswith("attrs.validators."):
            raise Untranslatable(f"validator {fn}")
        fn = fn[len("attrs.validators."):]
        kw = {k.arg: k.value for k in e.keywords}
        if None in kw:
            raise Untranslatable("validator with **kwargs")
        if fn == "instance_of":
            if len(e.args) != 1 or kw:
                raise Untranslatable("instance_of arguments")
            a = e.args[0]
            if not isinstance(a, ast.Name):
                raise Untranslatable(f"instance_of({ast.unparse(a)})")
            prim = {"bool": ("PBool",), "str": ("PStr",), "UUID": ("PUuid",), "list": ("PList",)}.get(a.id)
            if prim:
                return ("inst", prim)
            if self.is_enum(a.id):
                self.enum_members(a.id)
                return ("inst", ("PEnum", a.id))
            if self.is_attrs(a.id):
                return ("inst", ("PCls", a.id))
            raise Untranslatable(f"instance_of({a.id})")
        if fn == "optional":
            if len(e.args) != 1 or kw:
                raise Untranslatable("optional arguments")
            return ("opt", self.validator(e.args[0]))
        if fn == "and_":
            if len(e.args) < 2 or kw:
                raise Untranslatable("and_ arguments")
            vs = [self.validator(a) for a in e.args]
            out = vs[-1]
            for v in reversed(vs[:-1]):
                out = ("and", v, out)
            return out
        if fn == "matches_re":
            if len(e.args) != 1 or kw or not (isinstance(e.args[0], ast.Constant) and isinstance(e.args[0].value, str)):
                raise Untranslatable("matches_re arguments (flags / func are not modelled)")
            if e.args[0].value not in REGEXES:
                raise Untranslatable(f"matches_re: regex {e.args[0].value!r} has no hand-written matcher")
            return ("re", REGEXES[e.args[0].value])
        if fn == "deep_iterable":
            if e.args or set(kw) - {"member_validator", "iterable_validator"} or "member_validator" not in kw:
                raise Untranslatable("deep_iterable arguments")
            it = self.validator(kw["iterable_validator"]) if "iterable_validator" in kw else ("none",)
            return ("iter", self.validator(kw["member_validator"]), it)
        if fn == "deep_mapping":
            if e.args or set(kw) != {"key_validator", "value_validator"}:
                raise Untranslatable("deep_mapping arguments (mapping_validator is not modelled)")
            return ("map", self.validator(kw["key_validator"]), self.validator(kw["value_validator"]))
        raise Untranslatable(f"validator {fn}")

    def attrs_class(self, name):
        """-> [(field, annotation, validator, default)]"""
        cd = self.classes[name][0]
        if len(cd.decorator_list) != 1 or cd.bases:
            raise Untranslatable(f"class {name}: decorators/bases")
        d = cd.decorator_list[0]
        dkw = {k.arg: k.value for k in d.keywords}
        if d.args or set(dkw) - {"auto_attribs", "kw_only"} or not all(isinstance(v, ast.Constant) and v.value is True for v in dkw.values()):
            raise Untranslatable(f"class {name}: attrs.define arguments")
        out = []
        for st in strip_doc(cd.body):
            if isinstance(st, ast.Expr) and isinstance(st.value, ast.Constant) and isinstance(st.value.value, str):
                continue
            if isinstance(st, ast.FunctionDef):
                if st.name.startswith("__attrs") or st.name in ("__init__", "__eq__", "__setattr__", "__getattribute__"):
                    raise Untranslatable(f"class {name}: defines {st.name}")
                continue
            if not (isinstance(st, ast.AnnAssign) and isinstance(st.target, ast.Name) and st.simple):
                raise Untranslatable(f"class {name}: unexpected statement {type(st).__name__}")
            ann = self.annotation(st.annotation)
            vld, dfl = ("none",), "DNoDefault"
            if st.value is not None:
                v = st.value
                if isinstance(v, ast.Constant) and v.value is None:
                    dfl = "DNone"
                elif isinstance(v, ast.Call) and dotted(v.func) == "attrs.field" and not v.args:
                    for k in v.keywords:
                        if k.arg == "validator":
                            vld = self.validator(k.value)
                        elif k.arg == "default":
                            if not (isinstance(k.value, ast.Constant) and k.value.value is None):
                                raise Untranslatable(f"class {name}.{st.target.id}: default {ast.unparse(k.value)}")
                            dfl = "DNone"
                        else:
                            raise Untranslatable(f"class {name}.{st.target.id}: attrs.field({k.arg}=...)")
                else:
                    raise Untranslatable(f"class {name}.{st.target.id}: value {ast.unparse(v)}")
            out.append((st.target.id, ann, vld, dfl))
        seen_default = False
        kw_only = "kw_only" in dkw
        for _, _, _, dfl in out:
            if dfl == "DNone":
                seen_default = True
            elif seen_default and not kw_only:
                raise Untranslatable(f"class {name}: mandatory attribute after one with a default")
        return out

    # ------------------------------------------------------------ schemas
    def field(self, e, owner):
        """fields.X(...) -> dict(kind, inner/keys/values/nested, allow_none_arg, required, load_default, dump_default, data_key)"""
        if not isinstance(e, ast.Call):
            raise Untranslatable(f"{owner}: field is not a call: {ast.unparse(e)}")
        fn = dotted(e.func)
        if not fn.startswith("fields.") or fn[7:] not in FIELD_KINDS:
            raise Untranslatable(f"{owner}: field class {fn}")
        kind = fn[7:]
        kw = {k.arg: k.value for k in e.keywords}
        if None in kw:
            raise Untranslatable(f"{owner}: **kwargs")
        out = {"kind": kind, "allow_none_arg": None, "required": False, "load_default": "LMissing", "dump_default": "DMissing", "data_key": None}
        args = list(e.args)
        if kind == "List":
            if len(args) != 1:
                raise Untranslatable(f"{owner}: List needs exactly the inner field")
            out["inner"] = self.field(args.pop(0), owner + "[]")
        elif kind == "Nested":
            if len(args) != 1:
                raise Untranslatable(f"{owner}: Nested needs exactly the schema")
            out["nested"] = self.schema_ref(args.pop(0), owner)
        elif kind == "Dict":
            if "keys" not in kw or "values" not in kw:
                raise Untranslatable(f"{owner}: Dict without keys=/values= (raw copy is not modelled)")
            out["keys"] = self.field(kw.pop("keys"), owner + ".keys")
            out["values"] = self.field(kw.pop("values"), owner + ".values")
        if args:
            raise Untranslatable(f"{owner}: positional arguments")
        for k, v in kw.items():
            if k in ("allow_none", "required"):
                if not (isinstance(v, ast.Constant) and isinstance(v.value, bool)):
                    raise Untranslatable(f"{owner}: {k}={ast.unparse(v)}")
                out["allow_none_arg" if k == "allow_none" else "required"] = v.value
            elif k == "load_default":
                if isinstance(v, ast.Constant) and v.value is None:
                    out["load_default"] = "LNone"
                elif isinstance(v, ast.Dict) and not v.keys:
                    out["load_default"] = "LEmptyDict"
                else:
                    raise Untranslatable(f"{owner}: load_default={ast.unparse(v)}")
            elif k == "dump_default":
                if isinstance(v, ast.Constant) and isinstance(v.value, bool):
                    out["dump_default"] = f"DBool {'true' if v.value else 'false'}"
                else:
                    raise Untranslatable(f"{owner}: dump_default={ast.unparse(v)}")
            elif k == "data_key":
                if not (isinstance(v, ast.Constant) and isinstance(v.value, str)):
                    raise Untranslatable(f"{owner}: data_key={ast.unparse(v)}")
                out["data_key"] = v.value
            else:
                raise Untranslatable(f"{owner}: keyword {k} is not modelled")
        if out["required"] and out["load_default"] != "LMissing":
            raise Untranslatable(f"{owner}: required with load_default (marshmallow raises ValueError at import)")
        return out

    def schema_ref(self, e, owner):
        if isinstance(e, ast.Lambda) and not e.args.args:
            e = e.body
        if isinstance(e, ast.Call) and not e.args and not e.keywords:
            e = e.func
        if isinstance(e, ast.Name) and e.id in self.classes and [dotted(b) for b in self.classes[e.id][0].bases] == ["Schema"]:
            return e.id
        raise Untranslatable(f"{owner}: nested schema {ast.unparse(e)}")

    def hooks(self, name):
        cd = self.classes[name][0]
        fns = {}
        for st in cd.body:
            if isinstance(st, ast.FunctionDef):
                decs = [dotted(d) for d in st.decorator_list]
                if len(decs) != 1 or decs[0] not in ("post_load", "pre_load", "post_dump", "pre_dump"):
                    raise Untranslatable(f"{name}.{st.name}: decorators {decs}")
                if decs[0] in fns:
                    raise Untranslatable(f"{name}: two {decs[0]} hooks")
                a = st.args
                if len(a.args) != 2 or a.args[0].arg != "self" or a.vararg or a.kwonlyargs or a.kwarg is None or a.defaults:
                    raise Untranslatable(f"{name}.{st.name}: signature")
                body = strip_doc(st.body)
                pname = a.args[1].arg
                if pname != "data":   # the name of the parameter is immaterial: the templates below are written with `data`
                    if any(isinstance(x, ast.Name) and x.id == "data" for b in body for x in ast.walk(b)):
                        raise Untranslatable(f"{name}.{st.name}: both `{pname}` and `data` occur")

                    class Rename(ast.NodeTransformer):
                        def visit_Name(self, node):  # noqa: N802
                            return ast.copy_location(ast.Name(id="data", ctx=node.ctx), node) if node.id == pname else node

                    import copy

                    body = [Rename().visit(copy.deepcopy(b)) for b in body]
                fns[decs[0]] = body
        kinds = set(fns)

        def same(body, src):
            return [norm(s) for s in body] == [norm(s) for s in ast.parse(src).body]

        if kinds == {"post_load"}:
            body = fns["post_load"]
            # return Cls(**data)
            if len(body) == 1 and isinstance(body[0], ast.Return) and isinstance(body[0].value, ast.Call) and isinstance(body[0].value.func, ast.Name):
                c = body[0].value.func.id
                if same(body, f"return {c}(**data)") and self.is_attrs(c):
                    return ("HConstruct", c)
            # the enum coercion of ContentEvaluationResultSchema
            try:
                fld = body[0].test.left.value
                ename = body[0].body[0].body[0].test.operand.args[1].id
                c = body[1].value.func.id
            except (AttributeError, IndexError, TypeError):
                raise Untranslatable(f"{name}: post_load hook not recognised")
            tmpl = (f'if "{fld}" in data:\n'
                    f'    for rc_key, rc_value in data["{fld}"].items():\n'
                    f'        if not isinstance(rc_value, {ename}):\n'
                    f'            for enum_value in {ename}:\n'
                    f'                if str(rc_value).upper() == enum_value.value:\n'
                    f'                    data["{fld}"][rc_key] = {ename}(enum_value.value)\n'
                    f'                    break\n'
                    f'result = {c}(**data)\n'
                    f'return result\n')
            if isinstance(fld, str) and same(body, tmpl) and self.is_enum(ename) and self.is_attrs(c):
                return ("HCerConstruct", fld, ename, self.enum_members(ename), c)
            raise Untranslatable(f"{name}: post_load hook not recognised")
        if kinds == {"pre_load", "post_load", "post_dump"}:
            try:
                first = fns["post_load"][0].body[0].value.func.id
                second = fns["post_load"][0].handlers[0].body[0].value.func.id
            except (AttributeError, IndexError, TypeError):
                raise Untranslatable(f"{name}: hooks not recognised")
            ok = (same(fns["pre_load"], 'return {"value": data}')
                  and same(fns["post_dump"], 'return data["value"].upper()')
                  and same(fns["post_load"], f'try:\n    return {first}(data["value"])\nexcept ValueError:\n    return {second}(data["value"])\n'))
            if ok and self.is_enum(first) and self.is_enum(second):
                return ("HReqInd", [(first, self.enum_members(first)), (second, self.enum_members(second))])
        raise Untranslatable(f"{name}: hooks {sorted(kinds)} not recognised")

    def schema(self, name):
        cd = self.classes[name][0]
        if [dotted(b) for b in cd.bases] != ["Schema"] or cd.decorator_list:
            raise Untranslatable(f"{name}: bases/decorators")
        fields = []
        for st in strip_doc(cd.body):
            if isinstance(st, ast.FunctionDef):
                continue
            if isinstance(st, ast.Expr) and isinstance(st.value, ast.Constant) and isinstance(st.value.value, str):
                continue
            if isinstance(st, ast.Assign) and len(st.targets) == 1 and isinstance(st.targets[0], ast.Name):
                fields.append((st.targets[0].id, self.field(st.value, f"{name}.{st.targets[0].id}")))
            else:
                raise Untranslatable(f"{name}: unexpected statement {type(st).__name__} (class Meta / options are not modelled)")
        return {"name": name, "fields": fields, "hook": self.hooks(name)}


# ------------------------------------------------------------------ printing
def g_alts(alts):
    return "[" + "; ".join(f"({gtext(n)}, [{'; '.join(gtext(m) for m in ms)}])" for n, ms in alts) + "]"


def g_ty(t):
    k = t[0]
    if k == "bool":
        return "TBool"
    if k == "str":
        return "TStr"
    if k == "uuid":
        return "TUuid"
    if k == "enum":
        return f"(TEnum {g_alts(t[1])})"
    if k == "opt":
        return f"(TOpt {g_ty(t[1])})"
    if k == "list":
        return f"(TList {g_ty(t[1])})"
    if k == "dict":
        return f"(TDict {g_ty(t[1])} {g_ty(t[2])})"
    if k == "obj":
        return f"(ty_of_cls cls_{t[1]})"
    raise Untranslatable(f"type {t}")


def g_vld(v):
    k = v[0]
    if k == "none":
        return "VdNone"
    if k == "inst":
        p = v[1]
        return f"(VdInst {p[0]})" if len(p) == 1 else f"(VdInst ({p[0]} {gtext(p[1])}))"
    if k == "opt":
        return f"(VdOpt {g_vld(v[1])})"
    if k == "re":
        return f"(VdRe {v[1]})"
    if k == "and":
        return f"(VdAnd {g_vld(v[1])} {g_vld(v[2])})"
    if k == "iter":
        return f"(VdIter {g_vld(v[1])} {g_vld(v[2])})"
    if k == "map":
        return f"(VdMap {g_vld(v[1])} {g_vld(v[2])})"
    raise Untranslatable(f"validator {v}")


def g_opts(f):
    an = "None" if f["allow_none_arg"] is None else f"(Some {'true' if f['allow_none_arg'] else 'false'})"
    dk = "None" if f["data_key"] is None else f"(Some {gtext(f['data_key'])})"
    return (f"{{| allow_none_arg := {an}; required := {'true' if f['required'] else 'false'}; load_default := {f['load_default']}; "
            f"dump_default := {f['dump_default']}; data_key := {dk} |}}")


def g_ftype(f):
    k = f["kind"]
    if k in ("Boolean", "String", "UUID"):
        return FIELD_KINDS[k]
    if k == "List":
        return f"(FList {g_ftype(f['inner'])} {g_opts(f['inner'])})"
    if k == "Dict":
        return f"(FDict {g_ftype(f['keys'])} {g_opts(f['keys'])} {g_ftype(f['values'])} {g_opts(f['values'])})"
    if k == "Nested":
        return f"sch_{f['nested']}"
    raise Untranslatable(f"field kind {k}")


def nested_of(f):
    k = f["kind"]
    if k == "Nested":
        return [f["nested"]]
    if k == "List":
        return nested_of(f["inner"])
    if k == "Dict":
        return nested_of(f["keys"]) + nested_of(f["values"])
    return []


def classes_of(t):
    if t[0] == "obj":
        return [t[1]]
    if t[0] in ("opt", "list"):
        return classes_of(t[1])
    if t[0] == "dict":
        return classes_of(t[1]) + classes_of(t[2])
    return []


def facts():
    """structured result: {'schemas': {name: schema dict}, 'classes': {name: fields}, 'order': [...], 'class_of': {schema: class}}"""
    w = World()
    schemas, order = {}, []

    def visit(name, stack=()):
        if name in stack:
            raise Untranslatable(f"recursive schema {name} (only the hand-written tree schemas may be recursive)")
        if name in schemas:
            return
        s = w.schema(name)
        for _, f in s["fields"]:
            for n in nested_of(f):
                visit(n, stack + (name,))
        schemas[name] = s
        order.append(name)

    for n in SCHEMAS:
        visit(n)
    classes, corder = {}, []

    def cvisit(name, stack=()):
        if name in stack:
            raise Untranslatable(f"recursive class {name}")
        if name in classes:
            return
        c = w.attrs_class(name)
        for _, ann, _, _ in c:
            for n in classes_of(ann):
                cvisit(n, stack + (name,))
        classes[name] = c
        corder.append(name)

    class_of = {}
    for n in order:
        h = schemas[n]["hook"]
        if h[0] in ("HConstruct", "HCerConstruct"):
            class_of[n] = h[-1]
            cvisit(h[-1])
    for n in SCHEMAS:
        if n not in class_of:
            raise Untranslatable(f"{n} does not construct an attrs class")
    return {"schemas": schemas, "classes": classes, "order": order, "corder": corder, "class_of": class_of}


def generate():
    f = facts()
    out = ["From Ahb Require Import Model.Prelude.",
           f"(* GENERATED by vlib/gen_schemas.py from {SRC}/models/*.py -- do not edit *)",
           "From Ahb Require Import Model.Json.", ""]
    for c in f["corder"]:
        rows = [f"    ({gtext(n)}, {g_ty(ann)}, {g_vld(v)}, {d})" for n, ann, v, d in f["classes"][c]]
        out.append(f"(* attrs class {c}: " + ", ".join(n for n, _, _, _ in f["classes"][c]) + " *)")
        out.append(f"Definition cls_{c} : cls := {{| cname_of := {gtext(c)}; cfields := [\n" + ";\n".join(rows) + " ] |}.")
    out.append("")
    for s in f["order"]:
        sc = f["schemas"][s]
        h = sc["hook"]
        if h[0] == "HConstruct":
            hk = f"(HConstruct cls_{h[1]})"
        elif h[0] == "HCerConstruct":
            hk = f"(HCerConstruct {gtext(h[1])} {gtext(h[2])} [{'; '.join(gtext(m) for m in h[3])}] cls_{h[4]})"
        else:
            hk = f"(HReqInd {g_alts(h[1])})"
        rows = [f"    ({gtext(n)}, {g_ftype(fl)}, {g_opts(fl)})" for n, fl in sc["fields"]]
        out.append(f"(* marshmallow schema {s}: " + ", ".join(n for n, _ in sc["fields"]) + " *)")
        out.append(f"Definition sch_{s} : schema := FNested {gtext(s)} {hk} [\n" + ";\n".join(rows) + " ].")
    out.append("")
    out.append("(* the classes of property C19 with the schema that (de)serialises each *)")
    out.append("Definition c19_table : list (text * (cls * schema)) := [\n"
               + ";\n".join(f"    ({gtext(f['class_of'][s])}, (cls_{f['class_of'][s]}, sch_{s}))" for s in SCHEMAS) + " ].")
    return "\n".join(out) + "\n"
