"""C10 -- resolving packages and time conditions is exact bracketed substitution."""
import asyncio
import re

from vlib import evalimpl, runner, strings
from vlib.props import c01
from vlib.runner import finish, gbool, gtext, prepare

IMPORTS = "From Ahb Require Import Model.Prelude Model.Grammar Gen.Gen_grammar Model.Lex Gen.Gen_timecond Model.Resolve Corr.Resolve."
PKG_RE = re.compile(r"\[\s*(\d+P)\s*(\d+\.\.\d+)?\s*\]")
TC_RE = re.compile(r"\[\s*(UB[123])\s*\]")
TC_TEXT = {"UB1": "[932]", "UB2": "[934]", "UB3": "([932][492]X[934][493])"}


def package_table(rng, keys):
    """package key -> expression string | None (unknown)"""
    tab = {}
    for k in keys:
        r = rng.random()
        if r < 0.07:
            tab[k] = None
        else:
            toks = strings.random_wf_tokens(rng, rng.randint(1, 4))
            tab[k] = c01.render(rng, toks)[0]
    # a key the table does not know although a similar one is there (other zero padding): still unknown, never resolved by a look-alike
    for k in list(keys):
        if tab.get(k) is not None and rng.random() < (0.7 if k.startswith("0") else 0.12):
            twin = k.lstrip("0") if k.startswith("0") and k.lstrip("0") != "P" else "0" + k
            if twin not in tab:
                tab[twin], tab[k] = tab[k], None
    return tab


def regression_cases():
    import json
    import os

    path = os.path.join(runner.ROOT, "corpus", "resolve.json")
    out = []
    if os.path.exists(path):
        for e in json.load(open(path, encoding="utf-8")):
            s, tab = e.get("expression"), dict(e.get("packages") or {})
            if isinstance(s, str):
                for k in set(m.group(1) for m in PKG_RE.finditer(s)):
                    tab.setdefault(k, None)   # a package the recorded table did not contain is unknown
                out.append((s, tab, bool(e.get("resolve_packages", True)), bool(e.get("replace_time_conditions", True))))
    return out


def subst_text(s, tab, resolve_packages, replace_tc):
    if resolve_packages:
        s = PKG_RE.sub(lambda m: "(" + tab[m.group(1)] + ")", s)
    if replace_tc:
        s = TC_RE.sub(lambda m: TC_TEXT[m.group(1)], s)
    return s


def gtable(tab, parse):
    rows = []
    for k, v in tab.items():
        if v is None:
            rows.append(f"({gtext(k)}, None)")
        else:
            r = parse(v)
            rows.append(f"({gtext(k)}, Some {c01.obs_term(r)})")
    return "[" + "; ".join(rows) + "]"


def cer_history_oracle(ctx):
    """package tables that arrive as content evaluation results (ahbicht's own ContentEvaluationResultBasedPackageResolver, one singleton instance):
    a history of resolutions with DIFFERENT tables -- with and without an id, one after the other and several at once -- each compared with the
    parse of the bracketed textual substitution under its own table"""
    import uuid

    import inject
    from vlib import cerconc
    from ahbicht.expressions.expression_resolver import parse_expression_including_unresolved_subexpressions as resolve

    rng = ctx.rng
    exprs_ = ["[1] U [1P]", "[1P] O [2P] U [3]", "X [2P] U [1P]", "Muss [1P0..1] Soll [2P]", "[3P] O ([1] U [1P])", "[UB1] U [2P]"]
    variants = {"1P": ["[11] U [12]", "[13]", "[14] O [15][901]", "[UB2]"], "2P": ["[21]", "[22] X [23]", "[24] U [25] U [26]"], "3P": ["[31]", "[UB3] U [32]"]}
    n = 0
    cerconc._configure()  # pylint: disable=protected-access
    try:
        for with_id in (False, True, False):
            steps = []
            for _ in range(6 if ctx.quick else 40):
                tab = {k: rng.choice(v) for k, v in variants.items()}
                body = cerconc._body(packages=tab)  # pylint: disable=protected-access
                body["id"] = str(uuid.UUID(int=rng.getrandbits(128))) if with_id else None
                steps.append((rng.choice(exprs_), tab, body))
            # one after the other, then all at once
            for group in [[i] for i in range(len(steps))] + [list(range(len(steps)))]:
                async def one(i):
                    cerconc._var.set(steps[i][2])  # pylint: disable=protected-access
                    try:
                        return ("ok", await resolve(steps[i][0], resolve_packages=True, replace_time_conditions=True))
                    except Exception as e:  # pylint: disable=broad-except
                        from vlib import impl
                        return ("exn", impl.exc_class(e))

                async def main():
                    return await asyncio.gather(*[one(i) for i in group])

                got = asyncio.run(main())
                for i, g in zip(group, got):
                    expr, tab, _b = steps[i]
                    n += 1
                    want = evalimpl.outcome(lambda: asyncio.run(resolve(subst_text(expr, tab, True, True), resolve_packages=False, replace_time_conditions=False)))
                    if want[0] != g[0] or want[1] != g[1]:
                        ctx.fail(f"cer-history|{with_id}|{group}|{i}|{expr}", {"kind": "cer_history", "expression": expr, "packages": tab, "content_evaluation_result_has_id": with_id,
                                                                              "earlier_tables": [steps[j][1] for j in range(i)], "concurrently": len(group) > 1},
                                 str(want[1])[:300], str(g[1])[:300],
                                 "oracle: resolved tree == parse of the bracketed textual substitution under the table of THIS content evaluation result")
                        return n
    finally:
        inject.clear()
        evalimpl._configured = False  # pylint: disable=protected-access
    return n


def _is_ahb(s):
    from ahbicht.expressions.ahb_expression_parser import parse_ahb_expression_to_single_requirement_indicator_expressions as parse_ahb

    try:
        parse_ahb(s)
        return True
    except SyntaxError:
        return False


def run(ctx):
    from lark import Tree
    from ahbicht.expressions.expression_resolver import parse_expression_including_unresolved_subexpressions as resolve

    built = prepare(ctx, ["Gen_grammar", "Gen_timecond"], ["Props/C10.vo", "Corr/Resolve.vo"])
    rng = ctx.rng
    terms, many_terms, metas = [], [], []
    n_abbrev = 0
    regression = regression_cases()   # corpus/resolve.json: inputs on which a past (seeded) defect showed; they run first
    for it in range(len(regression) + (500 if ctx.quick else 8000)):
        if it < len(regression):
            s, tab, rp, rt = regression[it]
            absent = set()
            if c01.parse_impl(s)[0] != "ok" and _is_ahb(s):
                # an AHB expression (abbreviations inside its parts): the condition-expression oracle below does not apply, the AHB one does
                evalimpl.set_cer(packages=dict(tab))
                res = evalimpl.outcome(lambda: asyncio.run(resolve(s, resolve_packages=rp, replace_time_conditions=rt)))
                unknown = rp and any(tab.get(m.group(1)) is None for m in PKG_RE.finditer(s))
                bad_rep = rp and any(m.group(2) and not _rep_ok(m.group(2)) for m in PKG_RE.finditer(s))
                if not (unknown or bad_rep or res[0] != "ok"):
                    want = evalimpl.outcome(lambda: asyncio.run(resolve(subst_text(s, tab, rp, rt), resolve_packages=False, replace_time_conditions=False)))
                    if want[0] != "ok" or want[1] != res[1]:
                        ctx.fail(f"ahb-subst|{s!r}|{sorted(tab.items())}|{rp}|{rt}", {"expression": s, "packages": tab, "resolve_packages": rp, "replace_time_conditions": rt,
                                                                                        "substituted": subst_text(s, tab, rp, rt)}, str(want[1])[:300], str(res[1])[:300],
                                 "oracle: resolved AHB tree == parse of the bracketed textual substitution")
                continue
        else:
            toks = strings.random_wf_tokens(rng, rng.randint(1, 9))
            s, _ot = c01.render(rng, toks)
            if rng.random() < 0.15:   # a package key written with leading zeros: a different key than its unpadded look-alike
                s = PKG_RE.sub(lambda m: m.group(0).replace(m.group(1), "0" + m.group(1), 1), s, count=1)
            # force more abbreviations: replace some plain keys by packages / time conditions, some repeated or adjacent
            pkeys = sorted(set(m.group(1) for m in PKG_RE.finditer(s)))
            tab = package_table(rng, pkeys)
            rp, rt = rng.random() < 0.85, rng.random() < 0.8
            # an unknown package is either absent from the resolver's table or mapped to nothing
            absent = {k for k, v in tab.items() if v is None and rng.random() < 0.7}
        evalimpl.set_cer(packages={k: v for k, v in tab.items() if k not in absent})
        pre = c01.parse_impl(s)
        res = evalimpl.outcome(lambda: asyncio.run(resolve(s, resolve_packages=rp, replace_time_conditions=rt)))
        desc = {"expression": s, "packages": {k: v for k, v in tab.items() if k not in absent}, "resolve_packages": rp, "replace_time_conditions": rt}
        if pre[0] == "ok":
            obs = c01.obs_term(res) if res[0] == "ok" else f"(Exn {res[1]})"
            terms.append(f"({gtable(tab, c01.parse_impl)}, {gbool(rp)}, {gbool(rt)}, {strings.lark_to_gallina(pre[1])}, {obs})")
            metas.append(desc)
        # oracle: the statement itself -- exact tree equality with the parse of the textual substitution
        has_abbrev = bool(PKG_RE.search(s) or TC_RE.search(s))
        ctx.dist("condition.packages", len(PKG_RE.findall(s)))
        ctx.dist("condition.time_conditions", len(TC_RE.findall(s)))
        ctx.dist("condition.flags", f"packages={rp} time_conditions={rt}")
        ctx.dist("condition.outcome", "tree" if res[0] == "ok" else str(res[1]))
        n_abbrev += 1 if has_abbrev else 0
        unknown = rp and any(tab[m.group(1)] is None for m in PKG_RE.finditer(s))
        bad_rep = rp and any(m.group(2) and not _rep_ok(m.group(2)) for m in PKG_RE.finditer(s))
        key = f"{s!r}|{sorted(tab.items())}|{rp}|{rt}"
        if unknown and not bad_rep:
            if not (res[0] == "exn" and res[1] == "NotImpl"):
                ctx.fail("unknown|" + key, desc, "NotImplementedError (a package unknown to the resolver)", str(res)[:200], "oracle: an unknown package aborts with NotImplementedError")
            continue
        if bad_rep or unknown:
            continue
        # the same through the two functions themselves: expand_packages, then expand_time_conditions, on the parsed tree
        if pre[0] == "ok" and (rp or rt):
            from ahbicht.expressions.expression_resolver import expand_packages, expand_time_conditions

            def direct():
                t = c01.parse_impl(s)[1]
                if rp:
                    t = asyncio.run(expand_packages(t))
                return expand_time_conditions(t) if rt else t

            dres = evalimpl.outcome(direct)
            if dres[0] != res[0] or dres[1] != res[1]:
                ctx.fail("direct|" + key, dict(desc, entry="expand_packages / expand_time_conditions"), f"as the resolver: {res[1]}"[:300], f"{dres[1]}"[:300],
                         "oracle: expand_packages followed by expand_time_conditions gives the resolver's tree")
        want = c01.parse_impl(subst_text(s, tab, rp, rt))
        if want[0] != res[0] or (want[0] == "ok" and want[1] != res[1]) or (want[0] == "exn" and want[1] != res[1]):
            ctx.fail("subst|" + key, dict(desc, substituted=subst_text(s, tab, rp, rt)), f"{want[1] if want[0] == 'exn' else want[1]}"[:300],
                     f"{res[1]}"[:300], "oracle: resolved tree == parse of the bracketed textual substitution")
    # AHB expressions: abbreviations inside the parts
    for _ in range(150 if ctx.quick else 2500):
        parts = []
        for _ in range(rng.choice((1, 2, 3))):
            cs, _o = c01.render(rng, strings.random_wf_tokens(rng, rng.randint(1, 4)))
            parts.append((rng.choice(["Muss", "Soll", "Kann", "M", "k"]), cs))
        s = " ".join(i + c for i, c in parts)
        pkeys = sorted(set(m.group(1) for m in PKG_RE.finditer(s)))
        tab = package_table(rng, pkeys)
        evalimpl.set_cer(packages=dict(tab))
        rp, rt = rng.random() < 0.85, rng.random() < 0.8
        res = evalimpl.outcome(lambda: asyncio.run(resolve(s, resolve_packages=rp, replace_time_conditions=rt)))
        desc = {"expression": s, "packages": tab, "resolve_packages": rp, "replace_time_conditions": rt}
        pres = [c01.parse_impl(c) for _, c in parts]
        if all(p[0] == "ok" for p in pres):
            if res[0] == "ok" and isinstance(res[1], Tree) and res[1].data == "ahb_expression":
                try:
                    obs = "(Ok [" + "; ".join(strings.lark_to_gallina(ch.children[1]) for ch in res[1].children) + "])"
                except (ValueError, IndexError):
                    obs = "(Exn OtherErr)"
            else:
                obs = f"(Exn {res[1]})" if res[0] == "exn" else "(Exn OtherErr)"
            many_terms.append(f"({gtable(tab, c01.parse_impl)}, {gbool(rp)}, {gbool(rt)}, [" + "; ".join(strings.lark_to_gallina(p[1]) for p in pres) + f"], {obs})")
        unknown = rp and any(tab[m.group(1)] is None for m in PKG_RE.finditer(s))
        bad_rep = rp and any(m.group(2) and not _rep_ok(m.group(2)) for m in PKG_RE.finditer(s))
        if unknown or bad_rep or res[0] != "ok":
            continue
        want = evalimpl.outcome(lambda: asyncio.run(resolve(subst_text(s, tab, rp, rt), resolve_packages=False, replace_time_conditions=False)))
        if want[0] != "ok" or want[1] != res[1]:
            ctx.fail(f"ahb-subst|{s!r}|{sorted(tab.items())}|{rp}|{rt}", dict(desc, substituted=subst_text(s, tab, rp, rt)), str(want[1])[:300], str(res[1])[:300],
                     "oracle: resolved AHB tree == parse of the bracketed textual substitution")
    ctx.add_eval(cer_history_oracle(ctx))
    n, bad, err = runner.run_case_files("C10", IMPORTS, "res_case", "res_check", terms, shard=150)
    if err:
        ctx.broke("correspondence (resolver) could not be evaluated in Coq", err)
    for i in bad[:10]:
        ctx.broke("correspondence mismatch (resolver): model and ahbicht differ", str(metas[i]) + " -> " + terms[i][-300:])
    n2, bad2, err2 = runner.run_case_files("C10_many", IMPORTS, "many_case", "many_check", many_terms, shard=100)
    if err2:
        ctx.broke("correspondence (resolver, AHB parts) could not be evaluated in Coq", err2)
    for i in bad2[:10]:
        ctx.broke("correspondence mismatch (resolver, AHB parts)", many_terms[i][-600:])
    ctx.notes["correspondence"] = {"resolver": {"cases": n, "mismatches": len(bad)}, "resolver_ahb": {"cases": n2, "mismatches": len(bad2)}}
    ctx.add_eval(n + n2)
    ctx.coverage["distinct_nontrivial"] = n_abbrev
    ctx.coverage["rule"] = ("random well-formed expressions with packages (with/without repeatability, repeated, adjacent, at the root) and time conditions x random package tables "
                            "(values are random expressions possibly containing UBx and further packages, or missing) x both flags; the model receives the trees ahbicht parsed for the "
                            "expression and for every package text; compared: exact resolved tree or exception class; also AHB expressions with abbreviations inside their parts. "
                            "Oracle: resolved tree == parse(bracketed textual substitution) exactly; unknown package -> NotImplementedError; non-trivial = expressions containing an abbreviation")
    ctx.sample(metas[1] if len(metas) > 1 else {})
    # a package resolver that really suspends, with different latencies per occurrence: every occurrence is still replaced by ITS package (run last: re-configures the injector)
    from vlib import latency

    ctx.add_eval(latency.pkg_latency_oracle(ctx, "oracle: every package occurrence is replaced by its own package expression, however long the single look-ups take"))
    return finish(ctx, assumptions=["C10_textual_substitution is about the parser MODEL applied to the substituted text; that ahbicht's parser returns the same tree for that text is the oracle (exact tree equality) and the C01 correspondence",
                                    "repeatabilities n..m with n>m abort with ValueError (attrs validator); excluded from the substitution oracle, covered by the correspondence"])


def _rep_ok(rep):
    a, b = rep.split("..")
    return 0 <= int(a) <= int(b) and not (int(a) == 0 and int(b) == 0)


def replay(path):
    import json

    from ahbicht.expressions.expression_resolver import parse_expression_including_unresolved_subexpressions as resolve

    r = json.load(open(path, encoding="utf-8"))
    inp = r["input"]
    evalimpl.set_cer(packages=inp["packages"])
    res = evalimpl.outcome(lambda: asyncio.run(resolve(inp["expression"], resolve_packages=inp["resolve_packages"], replace_time_conditions=inp["replace_time_conditions"])))
    print("expected:", r["expected"])
    print("now     :", res[1])
    return 0
