"""C16 -- an invalid expression makes one node optional and never aborts validation."""
from vlib import evalimpl, valcorr
from vlib.runner import finish, prepare


def run(ctx):
    built = prepare(ctx, ["Gen_logic", "Gen_ranges", "Gen_valmaps", "Gen_enums", "Gen_select", "Gen_status", "Gen_pool"], ["Props/C16.vo", "Corr/Validate.vo", "Proofs/C09_gen.vo", "Proofs/C13_gen.vo", "Proofs/C17_gen.vo"])
    # plant invalid expressions: the generator produces structurally invalid condition expressions with higher weight
    orig = valcorr.cond_expr

    def biased(rng, kind="any"):
        if kind == "any" and rng.random() < 0.3:
            if rng.random() < 0.2:
                # invalid only through what a package brings along: a requirement constraint or a hint O/X a package of time conditions (format constraints)
                return rng.choice(["[2] O [5P]", "[501] O [5P]", "[2] X [6P]", "[6P] O [1]", "[5P] X [502]"])
            return orig(rng, "invalid")
        return orig(rng, kind)

    valcorr.cond_expr = biased
    valcorr.EMPTY_HINT[0] = 0.2
    try:
        cases = valcorr.validation_cases(ctx, 60 if ctx.quick else 1400, unknown=0.0, revisit=0.4, extra_attrs=0.3)
    finally:
        valcorr.cond_expr = orig
        valcorr.EMPTY_HINT[0] = 0.0
    valcorr.check_val_correspondence(ctx, cases, "C16")
    n_inv = 0
    for c in cases:
        valcorr.reset_cer(c)
        cache = c["cache"]
        # invalidity is structural (C06): some part's condition expression is structurally invalid
        invalid = {x for x in cache.res if structurally_invalid(cache.res[x])}
        exprs_here = {x for n in c["lines"] for x in valcorr.all_exprs(n)}
        inv_here = sorted(invalid & exprs_here)
        if not inv_here:
            continue
        n_inv += 1
        tag, rows = valcorr.summarize(c["res"])
        if tag == "exn" and rows == "InvalidExpr":
            ctx.fail(f"abort|{str(valcorr.describe(c))[:300]}", valcorr.describe(c), "a report", "InvalidExpressionError escapes", "oracle: an invalid expression never aborts validation")
            continue
        subset = set(x for x in inv_here if ctx.rng.random() < 0.7) or {inv_here[0]}
        lines2 = [valcorr.map_exprs(n, lambda x: "Kann" if x in subset else x) for n in c["lines"]]
        tag2, rows2 = valcorr.summarize(valcorr.run_validation(lines2, c["soll"]))
        ctx.add_eval(1)
        if tag != tag2 or (tag == "exn" and rows != rows2):
            ctx.fail(f"kann|{str(valcorr.describe(c))[:300]}", dict(valcorr.describe(c), kannified=sorted(subset)), f"same outcome class as the kannified AHB: {tag2} {rows2 if tag2 == 'exn' else ''}", f"{tag} {rows if tag == 'exn' else ''}", "oracle: C16 equation (errors)")
            continue
        if tag == "exn":
            continue
        if len(rows) != len(rows2) or [r[0] for r in rows] != [r[0] for r in rows2]:
            ctx.fail(f"kann|{str(valcorr.describe(c))[:300]}", dict(valcorr.describe(c), kannified=sorted(subset)), f"same nodes reported: {[r[0] for r in rows2]}", f"{[r[0] for r in rows]}", "oracle: C16 same positions")
            continue
        expr_of = {}

        def collect(n):
            if n[0] in ("G", "S", "F"):
                expr_of[n[1]] = n[2]
            if n[0] in ("G", "S"):
                for ch in n[3]:
                    collect(ch)

        for n in c["lines"]:
            collect(n)
        for r1, r2 in zip(rows, rows2):
            x = expr_of.get(r1[0])
            if x in invalid and r1[1] == "IS_OPTIONAL" and isinstance(r1[2], str):
                # "with the reason as hint": the reason of THIS evaluation (current content evaluation result), not of an earlier one
                valcorr.reset_cer(c)
                want_reason = valcorr.invalid_message(cache.res[x])
                if want_reason is not None and r1[2] != want_reason:
                    ctx.fail(f"reason|{r1[0]}|{str(valcorr.describe(c))[:300]}", dict(valcorr.describe(c), node=r1[0]), f"hint {want_reason!r}", f"hint {r1[2]!r}",
                             "oracle: the invalid node carries the reason of this evaluation as hint")
                    break
            if r1 == r2:
                continue
            # only the node that carried the invalid expression may differ: optional, a reason as hint
            if not (r1[1] == "IS_OPTIONAL" and isinstance(r1[2], str) and r1[2] and r2[1].startswith("IS_OPTIONAL")):
                ctx.fail(f"kann|{r1[0]}|{str(valcorr.describe(c))[:300]}", dict(valcorr.describe(c), kannified=sorted(subset), node=r1[0]), f"{r2}", f"{r1}", "oracle: every other node identical to the kannified AHB; the node itself optional with the reason as hint")
                break
    ctx.coverage["distinct_nontrivial"] = n_inv
    ctx.coverage["rule"] = ("random AHB trees with structurally invalid expressions planted at groups, segments, free-text elements and value-pool entries (several per tree) x random "
                            "content evaluation results x both flags; correspondence as C13; oracle: replace a random subset of the invalid expressions by 'Kann' and compare every "
                            "other node; non-trivial = runs whose tree holds at least one invalid expression")
    ctx.sample({"lines": cases[0]["lines"], "soll": cases[0]["soll"]})
    return finish(ctx, assumptions=["as C13"])


def structurally_invalid(res):
    """the resolved AHB tree has a part whose condition expression is structurally invalid (and in the domain)"""
    from lark import Tree
    from vlib import exprs

    if res[0] != "ok" or not isinstance(res[1], Tree) or res[1].data != "ahb_expression":
        return False
    for ch in res[1].children:
        if len(ch.children) == 2 and isinstance(ch.children[1], Tree):
            t = exprs.from_lark(ch.children[1])
            if t is not None and exprs.dom(t) and not exprs.valid(t):
                return True
    return False


def replay(path):
    return valcorr.replay_validation(path)
