"""C09 -- AHB expressions split into their parts; the first fulfilled part decides (part 1: evaluation of the parts)."""
import asyncio

from vlib import evalimpl, runner, valcorr
from vlib.exprs import gcer
from vlib.runner import finish, prepare


def run(ctx):
    from lark import Token, Tree
    from ahbicht.expressions.ahb_expression_evaluation import evaluate_ahb_expression_tree
    from ahbicht.expressions.ahb_expression_parser import parse_ahb_expression_to_single_requirement_indicator_expressions as parse_ahb
    from ahbicht.expressions.requirement_constraint_expression_evaluation import requirement_constraint_evaluation
    from ahbicht.expressions.format_constraint_expression_evaluation import format_constraint_evaluation
    from ahbicht.models.enums import ModalMark, PrefixOperator

    built = prepare(ctx, ["Gen_logic", "Gen_ranges", "Gen_valmaps", "Gen_enums", "Gen_ahbgrammar", "Gen_select", "Gen_ahbeval"], ["Props/C09.vo", "Corr/Validate.vo", "Corr/Ahb.vo"])
    CANON = {"M": ModalMark.MUSS, "MUSS": ModalMark.MUSS, "S": ModalMark.SOLL, "SOLL": ModalMark.SOLL, "K": ModalMark.KANN, "KANN": ModalMark.KANN,
             "X": PrefixOperator.X, "O": PrefixOperator.O, "U": PrefixOperator.U}
    terms, metas = [], []
    n_multi = 0
    for _ in range(600 if ctx.quick else 12000):
        rc, h, fc = valcorr.setup_cer(ctx.rng, unknown=0.1)
        # build the expression from known parts so the oracle knows the intended split
        k = ctx.rng.choices([1, 2, 3, 4, 5], [5, 4, 2, 1, 1])[0]
        if ctx.rng.random() < 0.15:
            parts = [(ctx.rng.choice(valcorr.PO), valcorr.cond_expr(ctx.rng))]
        else:
            parts = [(ctx.rng.choice(valcorr.MM), valcorr.cond_expr(ctx.rng)) for _ in range(k)]
        # every operator of a condition part in a spelling of its own: letter in either case or the symbol
        import re as _re

        respell = lambda c: _re.sub(r"(?<=[\]\)])(\s*)([UOX])(\s*)(?=[\[\(])", lambda m: m.group(1) + ctx.rng.choice({"U": "Uu∧", "O": "Oo∨", "X": "Xx⊻"}[m.group(2)]) + m.group(3), c)
        parts = [(i, respell(c)) for i, c in parts]
        tail = ctx.rng.choice(valcorr.MM) if parts[0][0] in valcorr.MM and ctx.rng.random() < 0.2 else None
        if ctx.rng.random() < 0.08:
            parts, tail = [], ctx.rng.choice(valcorr.MM + valcorr.PO)
        ws = lambda: ctx.rng.choice(("", " ", "  ", "\t"))
        s = "".join(i + ws() + c + ws() for i, c in parts) + (tail or "")
        res = valcorr.resolved(s)
        raw = evalimpl.outcome(lambda: asyncio.run(evaluate_ahb_expression_tree(res[1]))) if res[0] == "ok" else res
        terms.append(f"({gcer(rc, h, fc)}, {valcorr.nx_term(res)}, {valcorr.ahb_obs(raw)})")
        metas.append((s, rc, fc, raw))
        ctx.dist("parts", len(parts) + (1 if tail else 0))
        ctx.dist("form", "bare indicator" if not parts else "prefix operator" if parts[0][0] in valcorr.PO else "modal marks" + (" + trailing bare mark" if tail else ""))
        ctx.dist("outcome", ("selected " + str(getattr(raw[1], "requirement_indicator", "?"))) if raw[0] == "ok" else str(raw[1]))
        # oracle 1: the split (on the AHB parser alone)
        key = f"{s!r}|{sorted(rc.items())}|{sorted(fc.items())}"
        desc = {"ahb_expression": s, "rc": rc, "fc": {k2: list(v) for k2, v in fc.items()}, "packages": dict(valcorr.CURRENT_PACKAGES)}
        try:
            t = parse_ahb(s)
            got = []
            for ch in t.children:
                toks = ch.children
                got.append((str(toks[0]), str(toks[1]).strip() if len(toks) == 2 else None))
            want = [(i, c.strip()) for i, c in parts] + ([(tail, None)] if tail else [])
            if got != want:
                ctx.fail("split|" + key, desc, f"parts {want}", f"parts {got}", "oracle: the expression is split into exactly its parts in written order")
                continue
        except SyntaxError:
            ctx.fail("split|" + key, desc, "parses", "SyntaxError", "oracle: an AHB expression of the documented form parses")
            continue
        # oracle 1b: every part of the RESOLVED tree is the written part -- for a condition without abbreviations exactly the tree of its text
        if res[0] == "ok":
            from ahbicht.expressions.condition_expression_parser import parse_condition_expression_to_tree as _pc

            for idx, (i, c) in enumerate(parts):
                if "P" in c or "UB" in c:
                    continue
                try:
                    wt = _pc(c)
                except SyntaxError:
                    continue
                sub = res[1].children[idx].children[1] if len(res[1].children) > idx and len(res[1].children[idx].children) == 2 else None
                if sub != wt:
                    ctx.fail("resolved-part|" + key, dict(desc, part=c), f"the tree of the written condition {c!r}: {wt}"[:400], f"{sub}"[:400],
                             "oracle: the parts of the resolved expression are the written parts (their condition expressions parse to the same trees)")
                    break
        if len(parts) + (1 if tail else 0) > 1:
            n_multi += 1
        # oracle 2: first fulfilled part decides; its own outcome, hints and format result are reported
        if res[0] != "ok":
            continue
        outs, ok = [], True
        for i, c in parts:
            try:
                r = asyncio.run(requirement_constraint_evaluation(res[1].children[len(outs)].children[1]))
                f = asyncio.run(format_constraint_evaluation(r.format_constraints_expression))
                outs.append((CANON[i.upper()], r, f))
            except BaseException:  # pylint: disable=broad-except
                ok = False
                break
        if not ok:
            continue
        if tail:
            outs.append((CANON[tail.upper()], None, None))
        if raw[0] != "ok":
            ctx.fail("raises|" + key, desc, "the result of the first fulfilled part (every part evaluates on its own)", f"raises {raw[1]}", "oracle: evaluation of an AHB expression of the documented form must not raise")
            continue
        pick = None
        for o in outs:
            if o[1] is None or o[1].requirement_constraints_fulfilled:
                pick = o
                break
        if pick is None:
            pick = outs[-1]
        v = raw[1]
        exp_f = True if pick[1] is None else pick[1].requirement_constraints_fulfilled
        exp_h = None if pick[1] is None else pick[1].hints
        exp_fc = (True, None) if pick[2] is None else (pick[2].format_constraints_fulfilled, pick[2].error_message)
        got_t = (v.requirement_indicator, v.requirement_constraint_evaluation_result.requirement_constraints_fulfilled,
                 v.requirement_constraint_evaluation_result.hints,
                 (v.format_constraint_evaluation_result.format_constraints_fulfilled, v.format_constraint_evaluation_result.error_message))
        many = len(outs) > 1
        own_c = False if pick[1] is None else pick[1].requirement_is_conditional
        exp_c = True if (many and exp_f) else own_c
        if v.requirement_constraint_evaluation_result.requirement_is_conditional != exp_c:
            ctx.fail("conditional|" + key, desc, f"requirement_is_conditional={exp_c} (a bare indicator is unconditional; several parts make the selected fulfilled part conditional)",
                     f"{v.requirement_constraint_evaluation_result.requirement_is_conditional}", "oracle: conditional flag of the reported part")
            continue
        if got_t != (pick[0], exp_f, exp_h, exp_fc):
            ctx.fail("select|" + key, desc, f"{(str(pick[0]), exp_f, exp_h, exp_fc)}", f"{(str(got_t[0]),) + got_t[1:]}", "oracle: the first fulfilled part (else the last) is reported with its own outcome")
    n, bad, err = runner.run_case_files("C09", valcorr.IMPORTS, "ahb_case", "ahb_check", terms, shard=150)
    if err:
        ctx.broke("correspondence (AHB evaluation) could not be evaluated in Coq", err)
    for i in bad[:10]:
        ctx.broke("correspondence mismatch (AHB evaluation): model and ahbicht differ", str(metas[i][:3]) + " -> " + terms[i][-500:])
    ctx.notes["correspondence"] = {"ahb": {"cases": n, "mismatches": len(bad)}}
    # the string-level split: Lark on the AHB grammar vs the scanner model
    from vlib.props import c02

    AIMPORTS = "From Ahb Require Import Model.Prelude Model.Grammar Gen.Gen_grammar Gen.Gen_ahbgrammar Model.Lex Model.EvalAhb Model.Ahb Corr.Parse Corr.Ahb."
    sterms = [f"({runner.gtext(m[0])}, {c02.ahb_obs(c02.classify(lambda: parse_ahb(m[0])))})" for m in metas]
    n3, bad3, err3 = runner.run_case_files("C09_split", AIMPORTS, "ahbparse_case", "ahbparse_check", sterms, shard=300)
    if err3:
        ctx.broke("correspondence (AHB scanner) could not be evaluated in Coq", err3)
    for i in bad3[:10]:
        ctx.broke("correspondence mismatch (AHB scanner): model and Lark differ", f"{metas[i][0]!r} -> {sterms[i][-300:]}")
    ctx.notes["correspondence"]["scanner"] = {"cases": n3, "mismatches": len(bad3)}
    ctx.add_eval(n3)
    ctx.add_eval(n)
    ctx.coverage["distinct_nontrivial"] = n_multi
    ctx.coverage["rule"] = ("AHB expressions assembled from 1-5 modal-mark parts (all spellings M/Muss/S/Soll/K/Kann in mixed case, white space variants), optional trailing bare modal mark, "
                            "single prefix-operator parts in both cases, bare indicators x random content evaluation results (some UNKNOWN); evaluate_ahb_expression_tree vs the model; "
                            "oracles: the parser's split equals the assembled parts, and the reported result is the first fulfilled part's own; non-trivial = expressions with several parts")
    ctx.sample({"ahb_expression": metas[3][0]})
    return finish(ctx, assumptions=["Lark's dynamic lexer on the AHB grammar is modelled by the scanner of Model/Ahb.v (the C09_split* theorems are about it), validated by the scanner correspondence of this check and of C02"])


def replay(path):
    import json

    from ahbicht.expressions.ahb_expression_evaluation import evaluate_ahb_expression_tree

    r = json.load(open(path, encoding="utf-8"))
    inp = r["input"]
    evalimpl.set_cer(rc=inp["rc"], hints={k: "H" + k for k in valcorr.HINTS}, fc={k: tuple(v) for k, v in inp["fc"].items()}, packages=dict(inp.get("packages", valcorr.PACKAGES)))
    res = valcorr.resolved(inp["ahb_expression"])
    print("expected:", r["expected"], "| recorded:", r["observed"])
    print("now:", evalimpl.outcome(lambda: asyncio.run(evaluate_ahb_expression_tree(res[1]))) if res[0] == "ok" else res)
    return 0
