"""C03 -- four-valued logic. Tie T (Gen_logic, Gen_readme) validated exhaustively; oracle = the laws on the Python enum."""
import itertools

from vlib import runner
from vlib.runner import finish, prepare


def run(ctx):
    from vlib import impl  # noqa: F401
    from ahbicht.models.condition_nodes import ConditionFulfilledValue as V

    vals = list(V)
    ops = {"cfv_and": lambda a, b: a & b, "cfv_or": lambda a, b: a | b, "cfv_xor": lambda a, b: a ^ b}
    coqname = lambda v: "C_" + v.name
    # history (before anything else touches the operators in this process): the states are str-valued, so callers that hold the plain strings (e.g. straight out of JSON) may have used the operators with
    # them before; whatever that returned, it must not change what the operators return for the four states afterwards
    for f in ops.values():
        for a in vals:
            for b in vals:
                for x, y in ((a, str(b.value)), (str(a.value), b)):
                    try:
                        f(x, y)
                    except Exception:  # pylint: disable=broad-except
                        pass
    built = prepare(ctx, ["Gen_logic", "Gen_readme"], ["Props/C03.vo"])
    # --- translator validation (tie T): generated Gallina vs the Python operators on the whole domain
    pairs = list(itertools.product(vals, vals))
    cases = []
    for opn, f in ops.items():
        for a, b in pairs:
            try:
                r = f(a, b)
                obs = "Exn ReturnedNone" if r is None else f"Ok {coqname(r)}"
            except Exception as e:  # pylint: disable=broad-except
                obs = f"Exn {impl.exc_class(e)}"
            cases.append(f"({opn} {coqname(a)} {coqname(b)}, {obs})")
    if ctx.notes.get("gen_status", {}).get("Gen_logic") == "ok":
        n, bad, err = runner.run_case_files(
            "C03", "From Ahb Require Import Model.Prelude Gen.Gen_logic.", "result cfv * result cfv",
            "fun c => result_eqb cfv_eqb (fst c) (snd c)", cases)
        ctx.notes["translator_validation"] = {"cases": n, "mismatches": len(bad)}
        ctx.add_eval(n, n)
        if err:
            ctx.broke("translator validation for Gen_logic could not be evaluated", err)
        for i in bad:
            ctx.broke("translator validation mismatch (Gen_logic vs Python)", cases[i])
    # --- oracle: the laws of the statement evaluated on the enum itself (finite domain, exhaustive)
    D = (V.FULFILLED, V.UNFULFILLED)
    boolv = {True: V.FULFILLED, False: V.UNFULFILLED}

    def refinements(x):
        return D if x == V.UNKNOWN else (x,)

    n_or = 0
    for opn, f in ops.items():
        sym = opn[4:]
        for a, b in pairs:
            n_or += 1
            try:
                r = f(a, b)
            except Exception as e:  # pylint: disable=broad-except
                ctx.fail(f"{sym}:{a.name},{b.name}:total", [sym, a.name, b.name], "a condition state", repr(e), "oracle: totality")
                continue
            if not isinstance(r, V):
                ctx.fail(f"{sym}:{a.name},{b.name}:total", [sym, a.name, b.name], "a condition state", repr(r), "oracle: totality")
                continue
            if f(b, a) != r:
                ctx.fail(f"{sym}:{a.name},{b.name}:comm", [sym, a.name, b.name], str(r), str(f(b, a)), "oracle: commutativity")
            if b == V.NEUTRAL and r != a:
                ctx.fail(f"{sym}:{a.name},{b.name}:neutral", [sym, a.name, b.name], str(a), str(r), "oracle: NEUTRAL is the identity")
            outs = {f(x, y) for x in refinements(a) for y in refinements(b)}
            if r != V.UNKNOWN and V.UNKNOWN in (a, b) and outs != {r}:
                ctx.fail(f"{sym}:{a.name},{b.name}:sound", [sym, a.name, b.name], f"every refinement gives {r}", sorted(map(str, outs)), "oracle: UNKNOWN soundness")
            if r == V.UNKNOWN and len(outs) < 2:
                ctx.fail(f"{sym}:{a.name},{b.name}:tight", [sym, a.name, b.name], "two refinements that disagree", sorted(map(str, outs)), "oracle: UNKNOWN tightness")
        for a, b, c in itertools.product(vals, repeat=3):
            n_or += 1
            try:
                if f(f(a, b), c) != f(a, f(b, c)):
                    ctx.fail(f"{sym}:{a.name},{b.name},{c.name}:assoc", [sym, a.name, b.name, c.name], str(f(a, f(b, c))), str(f(f(a, b), c)), "oracle: associativity")
            except Exception:  # pylint: disable=broad-except
                pass
        for x, y in itertools.product((True, False), repeat=2):
            n_or += 1
            want = {"and": x and y, "or": x or y, "xor": x != y}[sym]
            try:
                if f(boolv[x], boolv[y]) != boolv[want]:
                    ctx.fail(f"{sym}:{x},{y}:bool", [sym, x, y], str(boolv[want]), str(f(boolv[x], boolv[y])), "oracle: Boolean fragment")
            except Exception:  # pylint: disable=broad-except
                pass
    # README rows against the Python operators (rows come from the translated README)
    from vlib import translate

    try:
        txt = translate.gen_readme()
        import re

        name2v = {"C_" + v.name: v for v in vals}
        for tab, f in (("readme_and_rows", ops["cfv_and"]), ("readme_or_rows", ops["cfv_or"]), ("readme_xor_rows", ops["cfv_xor"])):
            seg = txt.split(tab)[1].split("].")[0]
            for a, b, c in re.findall(r"\((C_\w+), (C_\w+), (None|\(Some C_\w+\))\)", seg):
                n_or += 1
                if c != "None":
                    want = name2v[c[6:-1]]
                    got = f(name2v[a], name2v[b])
                    if got != want or f(name2v[b], name2v[a]) != want:
                        ctx.fail(f"{tab}:{a},{b}", [tab, a, b], str(want), str(got), "oracle: README truth-table row")
    except Exception as e:  # pylint: disable=broad-except
        ctx.broke("README tables could not be read", str(e))
    ctx.add_eval(n_or, 0)
    ctx.coverage["exhaustive"] = True
    ctx.coverage["rule"] = ("translator validation: all 3 operators x 16 ordered pairs, generated Gallina evaluated by vm_compute and compared with the Python "
                            "enum operators (each pair distinct; all are non-trivial decision-table cells); oracle: every law of the statement on all pairs/triples")
    ctx.sample({"op": "and", "a": "UNKNOWN", "b": "UNFULFILLED", "python": str(V.UNKNOWN & V.UNFULFILLED)})
    ctx.sample(cases[5])
    return finish(ctx, assumptions=["README tables are parsed by the translator (simple and grid RST tables)"])


def replay(path):
    import json

    from vlib import impl  # noqa: F401
    from ahbicht.models.condition_nodes import ConditionFulfilledValue as V

    r = json.load(open(path))
    print("replay", r.get("input"), "expected", r.get("expected"))
    inp = r.get("input") or []
    if len(inp) >= 3 and inp[0] in ("and", "or", "xor") and all(isinstance(x, str) for x in inp[1:]):
        f = {"and": lambda a, b: a & b, "or": lambda a, b: a | b, "xor": lambda a, b: a ^ b}[inp[0]]
        a, b = V[inp[1]], V[inp[2]]
        print("observed now:", f(a, b), "/ swapped:", f(b, a))
    return 0
