"""C08 -- format-constraint evaluation is Boolean and explains every failure."""
import itertools

from vlib import evalcorr, exprs, runner
from vlib.exprs import gcer, to_gallina
from vlib.runner import finish, gopt, gtext, prepare

FKEYS = ["901", "902", "903"]


def fc_trees(ctx):
    ops = ("and", "or", "xor")
    out = []
    for n in (1, 2, 3) if ctx.quick else (1, 2, 3, 4):
        out += list(exprs.trees(n, FKEYS, ops))
    for _ in range(200 if ctx.quick else 3000):
        out.append(exprs.random_tree(ctx.rng, ctx.rng.randint(4, 9), FKEYS + ["950", "999"], ops))
    # a few with juxtaposition (no callback in the FC transformer -> error class compared)
    out += [("then", ("L", "901"), ("L", "902")), ("and", ("then", ("L", "901"), ("L", "902")), ("L", "903"))]
    return out


def msg_of(k, v, mode):
    if mode == "std":
        return None if v else f"{k} muss erfüllt sein"
    if mode == "none":
        return None
    return f"m{k}"  # 'all': every constraint carries a message, fulfilled or not


def run(ctx):
    from vlib import evalimpl
    from ahbicht.expressions.condition_expression_parser import parse_condition_expression_to_tree

    built = prepare(ctx, ["Gen_logic", "Gen_ranges", "Gen_grammar", "Gen_fcmsg"], ["Props/C08.vo", "Corr/Eval.vo"])
    # several truth assignments in flight at once on ahbicht's own content-evaluation-result based evaluators (implementation-side oracle)
    from vlib import cerconc

    ctx.add_eval(cerconc.fc_oracle(ctx, "C08"))
    evalimpl._configured = False  # pylint: disable=protected-access  (the oracle re-configured the injector)
    trees = fc_trees(ctx)
    terms, meta = [], []
    n_nontrivial = 0
    minimal_of = {}
    from ahbicht.expressions.format_constraint_expression_evaluation import evaluate_format_constraint_tree
    from ahbicht.models.condition_nodes import EvaluatedFormatConstraint

    for t in trees:
        keys = sorted(set(exprs.leaves(t)))
        s = exprs.to_string(t)
        assigns = list(itertools.product((True, False), repeat=len(keys)))
        if len(assigns) > 8:
            assigns = ctx.rng.sample(assigns, 8)
        try:
            same_tree = parse_condition_expression_to_tree(s)   # ONE tree object, evaluated under every assignment below
        except BaseException:  # pylint: disable=broad-except
            same_tree = None
        for vals in assigns:
            for mode in ("std",) if len(keys) > 2 and ctx.quick else ("std", "none", "all"):
                fc = {k: (v, msg_of(k, v, mode)) for k, v in zip(keys, vals)}
                evalimpl.set_cer(fc=fc)
                raw = evalimpl.outcome(lambda: evalimpl.fc_evaluation(s))
                if same_tree is not None and raw[0] == "ok" and all(x[0] != "then" for x in _nodes(t)):
                    # evaluating an already parsed tree again (other assignment) gives what evaluating the string gives
                    again = evalimpl.outcome(lambda: evaluate_format_constraint_tree(
                        same_tree, {k: EvaluatedFormatConstraint(format_constraint_fulfilled=v[0], error_message=v[1]) for k, v in fc.items()}))
                    with_msg = mode != "none"   # without messages on the inputs the evaluator layer supplies defaults the tree level does not
                    got = (again[1].format_constraint_fulfilled, again[1].error_message if with_msg else None) if again[0] == "ok" else again
                    if got != (raw[1].format_constraints_fulfilled, raw[1].error_message if with_msg else None):
                        ctx.fail(f"{s}|{sorted(fc.items())}|same-tree", {"fc_expression": s, "fc": {k: list(v) for k, v in fc.items()}},
                                 f"{(raw[1].format_constraints_fulfilled, raw[1].error_message)}", str(got),
                                 "oracle: a tree evaluated before (under another assignment) evaluates like a freshly parsed one")
                # the model gets the tree ahbicht itself parsed from the string
                try:
                    pt = exprs.from_lark(parse_condition_expression_to_tree(s))
                except BaseException:  # pylint: disable=broad-except
                    pt = None
                if pt is None:
                    continue
                terms.append(f"({gcer({}, {}, fc)}, Some {to_gallina(pt)}, {evalcorr.fc_obs(raw)})")
                meta.append((t, s, fc, raw, mode))
                # oracle: Boolean value; message iff unfulfilled (when the single constraints obey the proviso)
                if "then" not in s and all(x[0] != "then" for x in _nodes(t)):
                    want = exprs.beval(t, {k: v[0] for k, v in fc.items()})
                    key = f"{s}|{sorted(fc.items())}"
                    if raw[0] != "ok":
                        ctx.fail(key + "|raises", {"fc_expression": s, "fc": {k: list(v) for k, v in fc.items()}}, f"fulfilled={want}", f"raises {raw[1]}", "oracle: evaluation must not raise")
                    else:
                        if raw[1].format_constraints_fulfilled != want:
                            ctx.fail(key + "|value", {"fc_expression": s, "fc": {k: list(v) for k, v in fc.items()}}, f"fulfilled={want}", f"fulfilled={raw[1].format_constraints_fulfilled}", "oracle: Boolean value of the expression")
                        if mode == "std" and (raw[1].error_message is not None) != (not raw[1].format_constraints_fulfilled):
                            ctx.fail(key + "|msg", {"fc_expression": s, "fc": {k: list(v) for k, v in fc.items()}}, "error message iff unfulfilled", f"fulfilled={raw[1].format_constraints_fulfilled} message={raw[1].error_message!r}", "oracle: message iff unfulfilled")
                    if t[0] != "L":
                        n_nontrivial += 1
                    # the same expression written with ONLY the brackets the documented precedence needs, operators in mixed spellings: same value
                    if mode == "std" and t[0] != "L":
                        if id(t) not in minimal_of:
                            from vlib.props import c05

                            minimal_of[id(t)] = c05.minimal(t, ctx.rng)
                        s2 = minimal_of[id(t)]
                        raw2 = evalimpl.outcome(lambda: evalimpl.fc_evaluation(s2))
                        got2 = raw2[1].format_constraints_fulfilled if raw2[0] == "ok" else f"raises {raw2[1]}"
                        if got2 != want:
                            ctx.fail(f"{s2}|{sorted(fc.items())}|minimal-brackets", {"fc_expression": s2, "fully_bracketed": s, "fc": {k: list(v) for k, v in fc.items()}}, f"fulfilled={want}",
                                     f"fulfilled={got2}", "oracle: Boolean value of the expression written with the brackets the precedence needs only")
    # absent / empty expression
    for e in (None, ""):
        evalimpl.set_cer(fc={})
        raw = evalimpl.outcome(lambda: evalimpl.fc_evaluation(e))
        terms.append(f"({gcer({}, {}, {})}, None, {evalcorr.fc_obs(raw)})")
        meta.append((None, e, {}, raw, "absent"))
        if raw[0] != "ok" or raw[1].format_constraints_fulfilled is not True or raw[1].error_message is not None:
            ctx.fail(f"absent|{e!r}", {"fc_expression": e}, "fulfilled, no message", str(raw), "oracle: absent/empty expression counts as fulfilled")
    n, bad, err = runner.run_case_files("C08", evalcorr.IMPORTS, "fc_case", "fc_check", terms)
    if err:
        ctx.broke("correspondence (fc) could not be evaluated in Coq", err)
    for i in bad[:20]:
        t, s, fc, raw, mode = meta[i]
        ctx.broke("correspondence mismatch (fc): model and ahbicht differ", str({"fc_expression": s, "fc": fc, "observed": evalcorr.fc_obs(raw)}))
    ctx.notes["correspondence"] = {"fc": {"cases": n, "mismatches": len(bad)}}
    # the default message of the shipped base evaluator (C08_default_message)
    _default_message_check(ctx)
    # keys for which FcEvaluator ships predefined methods (931..935), evaluated by a user's OWN methods of the same names
    ctx.add_eval(_own_93x_check(ctx))
    # format-constraint evaluators that really suspend, with different latencies per key: the verdict is the Boolean value, whatever the completion order
    from vlib import latency

    lat = []
    for t in trees:
        ks = [k for k in exprs.leaves(t)]
        if 2 <= len(set(ks)) <= 4 and all(x[0] != "then" for x in _nodes(t)):
            lat.append((exprs.to_string(t), ks))
    ctx.rng.shuffle(lat)
    ctx.add_eval(latency.fc_latency_oracle(ctx, lat, "oracle: the verdict of format_constraint_evaluation does not depend on how long the single format-constraint evaluators take",
                                           n_max=10 if ctx.quick else 150))
    evalimpl._configured = False  # pylint: disable=protected-access
    ctx.add_eval(n)
    ctx.coverage["distinct_nontrivial"] = n_nontrivial
    ctx.coverage["rule"] = ("all FC-only trees with <= 3 (quick) / 4 (thorough) leaves over 3 keys x U/O/X x all truth assignments x message modes "
                            "{messages on unfulfilled only, no messages, messages everywhere}, random larger trees, two juxtaposition trees (error class), absent/empty; "
                            "format_constraint_evaluation(string) vs the model on the tree ahbicht parsed; non-trivial = distinct (expression, assignment, mode) with an operator")
    ctx.sample({"fc_expression": meta[40][1], "fc": {k: list(v) for k, v in meta[40][2].items()}, "observed": evalcorr.fc_obs(meta[40][3])})
    return finish(ctx, assumptions=["interpretation I-C08: fulfilled single constraints carry no message (hypothesis msgs_ok of C08_message_iff)"])


def _nodes(t):
    yield t
    if t[0] != "L":
        yield from _nodes(t[1])
        yield from _nodes(t[2])


def _default_message_check(ctx):
    """FcEvaluator.evaluate_single_format_constraint adds a message to an unfulfilled result without one"""
    import asyncio

    from ahbicht.content_evaluation.fc_evaluators import FcEvaluator, text_to_be_evaluated_by_format_constraint
    from ahbicht.models.condition_nodes import EvaluatedFormatConstraint

    class Ev(FcEvaluator):
        def evaluate_950(self, _):
            return EvaluatedFormatConstraint(format_constraint_fulfilled=False, error_message=None)

        def evaluate_951(self, _):
            return EvaluatedFormatConstraint(format_constraint_fulfilled=True, error_message=None)

        async def evaluate_952(self, _):
            return EvaluatedFormatConstraint(format_constraint_fulfilled=False, error_message="x")

    ev = Ev()
    terms = []
    for k in ("950", "951", "952"):
        text_to_be_evaluated_by_format_constraint.set("abc")
        r = asyncio.run(ev.evaluate_single_format_constraint(k))
        base = {"950": (False, None), "951": (True, None), "952": (False, "x")}[k]
        terms.append(f"(let r := default_message {gtext(k)} {{| ff := {str(base[0]).lower()}; fmsg := {gopt(base[1], gtext)} |}} in (ff r, fmsg r), "
                     f"({str(r.format_constraint_fulfilled).lower()}, {gopt(r.error_message, gtext)}))")
        if not r.format_constraint_fulfilled and r.error_message is None:
            ctx.fail(f"default-message|{k}", {"key": k}, "unfulfilled single constraint carries a message", "no message", "oracle: default message")
    n, bad, err = runner.run_case_files("C08_dm", evalcorr.IMPORTS + "\nFrom Ahb Require Import Proofs.C08_fc.", "fc_obs * fc_obs", "fun c => fc_obs_eqb (fst c) (snd c)", terms)
    if err or bad:
        ctx.broke("correspondence mismatch (default message of FcEvaluator)", err or str([terms[i] for i in bad]))
    ctx.add_eval(n)


def _own_93x_check(ctx):
    """a user-supplied FcEvaluator that defines evaluate_931..935 itself: its truth assignment decides, also for these keys"""
    import asyncio

    import inject
    from efoli import EdifactFormat, EdifactFormatVersion
    from ahbicht.content_evaluation.evaluationdatatypes import EvaluatableData, EvaluatableDataProvider
    from ahbicht.content_evaluation.fc_evaluators import FcEvaluator
    from ahbicht.content_evaluation.token_logic_provider import SingletonTokenLogicProvider, TokenLogicProvider
    from ahbicht.expressions.format_constraint_expression_evaluation import format_constraint_evaluation
    from ahbicht.models.condition_nodes import EvaluatedFormatConstraint
    from vlib import evalimpl

    fmt, ver = EdifactFormat.UTILMD, EdifactFormatVersion.FV2210
    truth = {}

    class Own(FcEvaluator):
        edifact_format, edifact_format_version = fmt, ver

    def make(k, is_async):
        if is_async:
            async def ev(self, entered_input):  # pylint: disable=unused-argument
                await asyncio.sleep(0)
                return EvaluatedFormatConstraint(format_constraint_fulfilled=truth[k], error_message=None if truth[k] else f"{k} nicht erfüllt")
        else:
            def ev(self, entered_input):  # pylint: disable=unused-argument
                return EvaluatedFormatConstraint(format_constraint_fulfilled=truth[k], error_message=None if truth[k] else f"{k} nicht erfüllt")
        return ev

    keys = ["931", "932", "933", "934", "935", "901"]
    for i, k in enumerate(keys):
        setattr(Own, f"evaluate_{k}", make(k, i % 2 == 0))
    own = Own()

    def cfg(binder):
        binder.bind(TokenLogicProvider, SingletonTokenLogicProvider([own]))
        binder.bind_to_provider(EvaluatableDataProvider, lambda: EvaluatableData(body={}, edifact_format=fmt, edifact_format_version=ver))

    inject.clear_and_configure(cfg)
    n = 0
    try:
        for t in [("xor", ("L", "932"), ("L", "933")), ("and", ("L", "932"), ("L", "933")), ("or", ("and", ("L", "934"), ("L", "935")), ("L", "901")),
                  ("L", "933"), ("L", "935"), ("xor", ("L", "931"), ("and", ("L", "933"), ("L", "934")))]:
            ks = sorted(set(exprs.leaves(t)))
            s = exprs.to_string(t)
            for vals in itertools.product((True, False), repeat=len(ks)):
                truth.clear()
                truth.update(dict(zip(ks, vals)))
                raw = evalimpl.outcome(lambda: asyncio.run(format_constraint_evaluation(s)))
                n += 1
                want = exprs.beval(t, dict(truth))
                got = raw[1].format_constraints_fulfilled if raw[0] == "ok" else f"raises {raw[1]}"
                if got != want or (raw[0] == "ok" and (raw[1].error_message is not None) != (not want)):
                    ctx.fail(f"{s}|{sorted(truth.items())}|own-93x", {"fc_expression": s, "fc": dict(truth), "evaluator": "a user's FcEvaluator defining evaluate_931..935 itself"},
                             f"fulfilled={want}, message iff unfulfilled", f"fulfilled={got}" + (f" message={raw[1].error_message!r}" if raw[0] == "ok" else ""),
                             "oracle: Boolean value under the truth assignment the user's evaluator implements (keys that also have predefined methods)")
    finally:
        inject.clear()
        evalimpl._configured = False  # pylint: disable=protected-access
    return n


def replay(path):
    import json

    from vlib import evalimpl

    r = json.load(open(path, encoding="utf-8"))
    inp = r["input"]
    evalimpl.set_cer(fc={k: tuple(v) for k, v in inp.get("fc", {}).items()})
    print("expected", r["expected"], "| now:", evalimpl.outcome(lambda: evalimpl.fc_evaluation(inp.get("fc_expression"))))
    return 0
