"""C17 -- value pools offer exactly the admissible qualifiers and judge input by them."""
import asyncio

from vlib import evalimpl, runner, valcorr
from vlib.exprs import gcer
from vlib.runner import finish, prepare

STATUSES = ["IS_REQUIRED", "IS_OPTIONAL", "IS_FORBIDDEN"]


def run(ctx):
    from ahbicht.expressions.ahb_expression_evaluation import evaluate_ahb_expression_tree
    from ahbicht.expressions import InvalidExpressionError
    from ahbicht.models.validation_values import RequirementValidationValue as R
    from ahbicht.validation.validation import validate_data_element_valuepool

    built = prepare(ctx, ["Gen_logic", "Gen_ranges", "Gen_valmaps", "Gen_enums", "Gen_pool"], ["Props/C17.vo", "Corr/Validate.vo"])
    terms, metas = [], []
    n_nontrivial = 0
    for _ in range(250 if ctx.quick else 6000):
        rc, h, fc = valcorr.setup_cer(ctx.rng, unknown=0.05)
        cache = valcorr.ExprCache()
        n = ctx.rng.choices([0, 1, 2, 3, 4, 5], [1, 2, 4, 4, 3, 2])[0]
        quals = [f"Q{j}" for j in range(n)]
        if ctx.rng.random() < 0.3:
            # qualifiers as code lists really spell them: digits, dots, lower-case letters, mixed case (an entered value is compared as it is written)
            quals = ctx.rng.sample(["1.1a", "2.0a", "GABi-RLMoT", "GABi-RLMmT", "Z13", "E_0403", "ZD2", "9", "G_0057", "Z1a"], n)
        if n >= 2 and ctx.rng.random() < 0.1:
            quals[1] = quals[0]  # duplicate qualifier: dict semantics
        # entry expressions: all generators, plus a small fixed set of package-bearing expressions that recur across pools
        # while the package definitions change from one content evaluation result to the next
        # the meaning of an entry is any text, the empty one included (a line of the AHB without a description)
        pool = [(quals[j], "" if ctx.rng.random() < 0.12 else f"meaning {j}", ctx.rng.choice(["X [1P]", "X [2P]", "Muss [1P]", "X [2P] U [4]", "X"]) if ctx.rng.random() < 0.3 else valcorr.ahb_expr(ctx.rng))
                for j in range(n)]
        if n >= 2 and ctx.rng.random() < 0.35:
            # the same expression at several entries (qualifiers of one code list often share their condition), also an invalid one
            i, j = ctx.rng.sample(range(n), 2)
            x = valcorr.cond_expr(ctx.rng, "invalid") if ctx.rng.random() < 0.4 else None
            src = ("X " + x) if x else pool[i][2]
            pool[i] = (pool[i][0], pool[i][1], src)
            pool[j] = (pool[j][0], pool[j][1], src)
            if n >= 3 and ctx.rng.random() < 0.5:
                k = ctx.rng.choice([q for q in range(n) if q not in (i, j)])
                pool[k] = (pool[k][0], pool[k][1], ctx.rng.choice(["X [3]", "X [2]", "X [4]"]))
        # not offered, but close to what is: a fragment / an extension / another letter case of a qualifier, a fragment of the joined list of qualifiers
        near = ["Q", "0", " ", ", ", "q0", "Q0 ", " Q0", "Q00", "Q0, Q1", "Q0,Q1", "Q1, Q2", ", Q1"] + [q[:-1] for q in quals] + [q + q for q in quals] + [", ".join(quals)] + [q.lower() for q in quals] + [q.upper() for q in quals]
        inp = ctx.rng.choice([None, "", "ZZZ"] + quals + ([ctx.rng.choice(near)] if ctx.rng.random() < 0.6 else []))
        de = ("P", "pool", pool, inp)
        status = ctx.rng.choice(STATUSES)
        mde = valcorr.to_maus(de)
        res = evalimpl.outcome(lambda: asyncio.run(validate_data_element_valuepool(mde, R[status])))
        inv = set()
        obs = f"(Exn {res[1]})" if res[0] == "exn" else f"(Ok {valcorr.vres_term(res[1], inv)})"
        terms.append(f"({gcer(rc, h, fc)}, {valcorr.de_term(de, cache)}, {status}, {obs})")
        metas.append((rc, fc, de, status, res))
        # the same judgement when the element is reached through its segment (validate_segment -> validate_data_element): a required / optional segment
        # hands its status down, the element's row is the one of the direct call
        if status != "IS_FORBIDDEN" and res[0] == "ok":
            seg = ("S", "seg", "Muss", [de])
            t2, rows2 = valcorr.summarize(valcorr.run_segment(seg, status, True))
            direct = valcorr.summarize(("ok", [res[1]]))[1][0]
            if t2 != "ok" or len(rows2) != 2 or rows2[1] != direct:
                ctx.fail(f"via-segment|{pool}|{inp}|{status}|{sorted(rc.items())}", {"pool": pool, "input": inp, "segment_status": status, "rc": rc, "fc": {k: list(x) for k, x in fc.items()},
                                                                                      "packages": dict(valcorr.CURRENT_PACKAGES), "entry": "validate_segment"},
                         f"the element's row as validate_data_element_valuepool reports it: {direct}", f"{rows2[1] if t2 == 'ok' and len(rows2) == 2 else rows2}",
                         "oracle: a value pool reached through validate_segment is judged like the value pool on its own")
        # oracle
        if res[0] != "ok":
            continue
        v = res[1].validation_result
        offered = []
        ok = True
        if status != "IS_FORBIDDEN":
            if len(pool) == 1:
                offered = [pool[0][0]]
            else:
                for q, _m, x in pool:
                    r = cache.res.get(x) or valcorr.resolved(x)
                    if r[0] != "ok":
                        ok = False
                        break
                    try:
                        e = asyncio.run(evaluate_ahb_expression_tree(r[1]))
                        sel = bool(e.requirement_constraint_evaluation_result.requirement_constraints_fulfilled)
                    except InvalidExpressionError:
                        sel = True
                    except BaseException:  # pylint: disable=broad-except
                        ok = False
                        break
                    if sel and q not in offered:
                        offered.append(q)
        if not ok:
            continue
        n_nontrivial += 1 if len(pool) > 1 else 0
        key = f"{pool}|{inp}|{status}|{sorted(rc.items())}"
        desc = {"pool": pool, "input": inp, "segment_status": status, "rc": rc, "fc": {k: list(x) for k, x in fc.items()}, "packages": dict(valcorr.CURRENT_PACKAGES)}
        got_offered = list((v.possible_values or {}).keys())
        if got_offered != offered:
            ctx.fail("offered|" + key, desc, f"offered qualifiers {offered}", f"{got_offered}", "oracle: offered values = admissible qualifiers in pool order")
            continue
        st = v.requirement_validation.name
        if not offered:
            if st != "IS_FORBIDDEN":
                ctx.fail("nothing|" + key, desc, "IS_FORBIDDEN (nothing offered / segment forbidden)", st, "oracle: nothing offered -> forbidden")
        elif inp is not None and inp in offered:
            if st != "IS_REQUIRED_AND_FILLED" or v.format_validation_fulfilled is not True:
                ctx.fail("accept|" + key, desc, "accepted (IS_REQUIRED_AND_FILLED)", f"{st} fmt={v.format_validation_fulfilled}", "oracle: an offered value is accepted")
        elif inp:
            if st != "IS_REQUIRED_AND_EMPTY" or v.format_validation_fulfilled is not False or not v.hints:
                ctx.fail("unexpected|" + key, desc, "flagged and reported empty with a hint", f"{st} fmt={v.format_validation_fulfilled} hints={v.hints!r}", "oracle: an unexpected value is flagged and reported as empty")
        else:
            if st != "IS_REQUIRED_AND_EMPTY" or v.format_validation_fulfilled is not True:
                ctx.fail("empty|" + key, desc, "IS_REQUIRED_AND_EMPTY", f"{st}", "oracle: absent/empty input")
    n, bad, err = runner.run_case_files("C17", valcorr.IMPORTS, "pool_case", "pool_check", terms, shard=120)
    if err:
        ctx.broke("correspondence (value pool) could not be evaluated in Coq", err)
    for i in bad[:10]:
        ctx.broke("correspondence mismatch (value pool): model and ahbicht differ", str(metas[i][:4]) + " -> " + terms[i][-400:])
    ctx.notes["correspondence"] = {"pool": {"cases": n, "mismatches": len(bad)}}
    ctx.add_eval(n)
    ctx.coverage["distinct_nontrivial"] = n_nontrivial
    ctx.coverage["rule"] = ("random value pools of size 0-5 (entry expressions from all generators incl. invalid, unknown-producing, packages; occasional duplicate qualifier) x "
                            "inputs {absent, empty, offered, not offered} x all three parent statuses x random content evaluation results through validate_data_element_valuepool; "
                            "non-trivial = pools with more than one entry whose entries all evaluate")
    ctx.sample({"pool": metas[0][2][2], "input": metas[0][2][3], "segment_status": metas[0][3]})
    return finish(ctx, assumptions=["as C13; duplicate qualifiers follow dict semantics (first position kept)"])


def replay(path):
    import json

    from ahbicht.models.validation_values import RequirementValidationValue as R
    from ahbicht.validation.validation import validate_data_element_valuepool

    r = json.load(open(path, encoding="utf-8"))
    inp = r["input"]
    evalimpl.set_cer(rc=inp["rc"], hints={k: "H" + k for k in valcorr.HINTS}, fc={k: tuple(v) for k, v in inp["fc"].items()}, packages=dict(inp.get("packages", valcorr.PACKAGES)))
    de = valcorr.to_maus(("P", "pool", [tuple(p) for p in inp["pool"]], inp["input"]))
    res = evalimpl.outcome(lambda: asyncio.run(validate_data_element_valuepool(de, R[inp["segment_status"]])))
    print("expected:", r["expected"], "| recorded:", r["observed"])
    print("now:", res[1].validation_result if res[0] == "ok" else res)
    return 0
