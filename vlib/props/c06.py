"""C06 -- validity is structural; validity check and evaluation agree."""
from vlib import evalcorr, exprs, runner
from vlib.props import c04
from vlib.runner import finish, gbool, glist, gtext

VIMPORTS = ("From Ahb Require Import Model.Prelude Model.Grammar Gen.Gen_logic Gen.Gen_valmaps Gen.Gen_enums Model.EvalRC Model.EvalFC Model.EvalAhb "
            "Model.Keys Model.Validity Corr.Eval Corr.Validity.")


def run(ctx):
    built, cases = c04.common(ctx, "Props/C06.vo")
    ok_v, log_v = runner.coq_make(["Corr/Validity.vo", "Corr/Validate.vo"]) if runner.REPLAY is None else (True, "")
    if not ok_v:
        ctx.broke("Coq build failed for Corr/Validity.vo", log_v[-1500:])
    raws = c04.correspondence(ctx, cases, "C06", levels=("node",))
    # oracle: raises under some assignment <=> under all <=> structurally invalid
    per = {}
    for (t, rho), (tag, v) in zip(cases, raws):
        if not exprs.dom(t):
            continue
        per.setdefault(exprs.show(t), (t, []))[1].append((rho, tag, v))
    nontrivial = 0
    for name, (t, obs) in per.items():
        inv = [o for o in obs if o[1] == "exn" and o[2] == "InvalidExpr"]
        other = [o for o in obs if o[1] == "exn" and o[2] != "InvalidExpr"]
        if t[0] != "L":
            nontrivial += 1
        if other:
            ctx.fail(f"{name}|other", {"expression": name, "rc": other[0][0]}, "a result or the invalid-expression error", other[0][2], "oracle: in-domain expression raised another error")
        if exprs.valid(t) and inv:
            ctx.fail(f"{name}|valid-raises", {"expression": name, "rc": inv[0][0]}, "no invalid-expression error (structurally valid)", "InvalidExpressionError", "oracle: C06 valid_never")
        if not exprs.valid(t) and len(inv) != len(obs):
            ok = [o for o in obs if o[1] == "ok"]
            ctx.fail(f"{name}|invalid-evaluates", {"expression": name, "rc": ok[0][0] if ok else {}}, "invalid-expression error under every assignment (structurally invalid)", "evaluates", "oracle: C06 invalid_always")
    ahb_level(ctx, per)
    n_valid_api = validity_check_oracle(ctx, per)
    ctx.notes["validity_check_calls"] = n_valid_api
    ctx.coverage["distinct_nontrivial"] = nontrivial
    ctx.coverage["rule"] = ("corpus of C04 (exhaustive <= 3 leaves x all 3^m assignments + random trees); per expression the set of assignments raising "
                            "InvalidExpressionError must be all (structurally invalid) or none (valid); non-trivial = distinct in-domain expressions with an operator")
    ctx.notes["invalid_expressions"] = sum(1 for _, (t, _o) in per.items() if not exprs.valid(t))
    for name in list(per)[300:303]:
        ctx.sample({"expression": name, "structurally_valid": exprs.valid(per[name][0])})
    return finish(ctx, assumptions=["expressions are in the property's domain (dom): juxtaposition attaches one FC key to a hint or an RC-carrying operand"])


def ahb_level(ctx, per):
    """AHB expressions with several parts: if some part is structurally invalid the evaluation raises the invalid-expression error under EVERY
    assignment (also when an earlier part is fulfilled), if all parts are valid under none. Correspondence with Model/EvalAhb.v on the same runs."""
    import asyncio
    import itertools

    from ahbicht.expressions.ahb_expression_evaluation import evaluate_ahb_expression_tree
    from vlib import evalimpl, valcorr
    from vlib.exprs import gcer

    names = sorted(n for n, (t, _o) in per.items() if len(set(exprs.leaves(t))) <= 2)
    valid = [n for n in names if exprs.valid(per[n][0])]
    invalid = [n for n in names if not exprs.valid(per[n][0])]
    if not valid or not invalid:
        return
    rng = ctx.rng
    terms, meta, n_runs = [], [], 0
    for _ in range(40 if ctx.quick else 600):
        shape = rng.choice(("vi", "iv", "vvi", "viv", "vv", "vvv"))
        parts = [rng.choice(valid if ch == "v" else invalid) for ch in shape]
        marks = rng.sample(["Muss", "Soll", "Kann"], len(parts)) if len(parts) <= 3 else None
        s = " ".join(f"{m} {p}" for m, p in zip(marks, parts))
        keys = sorted({k for p in parts for k in exprs.leaves(per[p][0])})
        rk = [k for k in keys if exprs.kind(k) == "rc"]
        if len(rk) > 3:
            continue
        has_invalid = "i" in shape
        raised = []
        res = None
        for vals in itertools.product(evalcorr.STATES, repeat=len(rk)):
            rho = dict(zip(rk, vals))
            hints = evalcorr.default_hints([k for k in keys if exprs.kind(k) == "hint"])
            fc = {k: (True, None) for k in keys if exprs.kind(k) == "fc"}
            evalimpl.set_cer(rc=rho, hints=hints, fc=fc)
            if res is None:
                res = valcorr.resolved(s)
                if res[0] != "ok":
                    break
            raw = evalimpl.outcome(lambda: asyncio.run(evaluate_ahb_expression_tree(res[1])))
            n_runs += 1
            raised.append((rho, raw[0] == "exn" and raw[1] == "InvalidExpr", raw))
            terms.append(f"({gcer(rho, hints, fc)}, {valcorr.nx_term(res)}, {valcorr.ahb_obs(raw)})")
            meta.append({"ahb_expression": s, "rc": rho})
        if res is None or res[0] != "ok":
            continue
        if has_invalid and not all(r[1] for r in raised):
            ok = next(r for r in raised if not r[1])
            ctx.fail(f"ahb|{s}|invalid-evaluates", {"expression": s, "rc": ok[0]}, "invalid-expression error under every assignment (a part is structurally invalid)",
                     str(ok[2])[:200], "oracle: C06 invalid_always at AHB level")
        if not has_invalid and any(r[1] for r in raised):
            bad = next(r for r in raised if r[1])
            ctx.fail(f"ahb|{s}|valid-raises", {"expression": s, "rc": bad[0]}, "no invalid-expression error (all parts valid)", "InvalidExpressionError", "oracle: C06 valid_never at AHB level")
    n, bad, err = runner.run_case_files("C06_A", valcorr.IMPORTS, "ahb_case", "ahb_check", terms, shard=200)
    if err:
        ctx.broke("correspondence (AHB evaluation) could not be evaluated in Coq", err)
    for i in bad[:10]:
        ctx.broke("correspondence mismatch (AHB evaluation): model and ahbicht differ", str(meta[i]))
    ctx.notes.setdefault("correspondence", {})["ahb_evaluation"] = {"cases": n, "mismatches": len(bad)}
    ctx.add_eval(n)


def validity_check_oracle(ctx, per):
    """is_valid_expression (with CER-based evaluators and a ContextVar setter, as in the test suite) agrees with the
    structural criterion, for AHB expressions and for trees"""
    import asyncio
    from contextvars import ContextVar

    import inject
    from efoli import EdifactFormat, EdifactFormatVersion
    from ahbicht.content_evaluation import is_valid_expression
    from ahbicht.content_evaluation.evaluationdatatypes import EvaluatableData, EvaluatableDataProvider
    from ahbicht.content_evaluation.evaluator_factory import create_content_evaluation_result_based_evaluators
    from ahbicht.content_evaluation.token_logic_provider import SingletonTokenLogicProvider, TokenLogicProvider
    from ahbicht.models.content_evaluation_result import ContentEvaluationResultSchema
    from vlib import evalimpl

    var = ContextVar("verif_cer", default=None)
    fmt, ver = EdifactFormat.UTILMD, EdifactFormatVersion.FV2210

    def data():
        return EvaluatableData(body=ContentEvaluationResultSchema().dump(var.get()), edifact_format=fmt, edifact_format_version=ver)

    def cfg(binder):
        binder.bind(TokenLogicProvider, SingletonTokenLogicProvider([*create_content_evaluation_result_based_evaluators(fmt, ver)]))
        binder.bind_to_provider(EvaluatableDataProvider, data)

    inject.clear_and_configure(cfg)
    from ahbicht.expressions.condition_expression_parser import extract_categorized_keys_from_tree
    from vlib import valcorr

    names = sorted(per)
    ctx.rng.shuffle(names)
    n = 0
    vterms, vmeta = [], []
    try:
        for name in names[: 250 if ctx.quick else 4000]:
            t = per[name][0]
            if len(set(exprs.leaves(t))) > 3:
                continue
            ind = ctx.rng.choice(["Muss ", "Soll", "K", "X", "u "])
            # the expression as a user writes it: either fully bracketed, or with only the brackets the documented precedence needs and every operator in
            # a spelling of its own (letter in either case / symbol) -- the structure the criterion speaks about is the one the documentation fixes
            from vlib.props import c05

            s = ind + (name if ctx.rng.random() < 0.4 else c05.minimal(t, ctx.rng))
            tag, v = evalimpl.outcome(lambda: asyncio.run(is_valid_expression(s, var.set)))
            n += 1
            want = exprs.valid(t)
            if tag != "ok" or v[0] is not want or (want and v[1] is not None) or (not want and not isinstance(v[1], str)):
                ctx.fail(f"is_valid|{s}", {"expression": s}, f"({want}, {'None' if want else 'reason'})", str((tag, v))[:200], "oracle: validity check agrees with the structural criterion")
            # correspondence with Model/Validity.v: the resolved tree and its sanitized key lists in, the verdict out
            res = valcorr.resolved(s)
            nx = valcorr.nx_term(res)
            if nx.startswith("(Ok "):
                ex = extract_categorized_keys_from_tree(res[1], sanitize=True)
                if len(ex.format_constraint_keys) + len(ex.requirement_constraint_keys) <= 5:
                    obs = f"(Ok {gbool(bool(v[0]))})" if tag == "ok" else f"(Exn {v})"
                    vterms.append(f"({nx[4:-1]}, {glist(ex.hint_keys, gtext)}, {glist(ex.format_constraint_keys, gtext)}, {glist(ex.requirement_constraint_keys, gtext)}, {obs})")
                    vmeta.append({"expression": s, "observed": str((tag, v))[:200]})
        # many keys: the number of generated content evaluation results grows as 3^m * 2^n (729 for six requirement keys); the verdict does not depend on it
        big = [("Muss ([1] U [2] U [3] U [4] U [5] U [6]) O [501]", False), ("Muss [1] U [2] U [3] U [4] U [5] U [6]", True),
               ("Soll ([1] O [2]) U ([3] X [4]) U [5] U [6][901]", True), ("X ([1] U [2] U [3]) X (([4] U [5] U [6]) O [502])", False)]
        if not ctx.quick:
            big += [("Muss ([1] U [2] U [3] U [4] U [5] U [6] U [7]) X ([501] U [502])", False), ("Muss ([1] O [2] O [3] O [4]) U ([5] X [6] X [7])", True)]
        for s, want in big:
            tag, v = evalimpl.outcome(lambda: asyncio.run(is_valid_expression(s, var.set)))
            n += 1
            if tag != "ok" or v[0] is not want or (want and v[1] is not None) or (not want and not isinstance(v[1], str)):
                ctx.fail(f"is_valid|{s}", {"expression": s}, f"({want}, {'None' if want else 'reason'})", str((tag, v))[:200],
                         "oracle: validity check agrees with the structural criterion (an expression with many keys)")
    finally:
        inject.clear()
        evalimpl._configured = False  # pylint: disable=protected-access
    ctx.add_eval(n)
    nv, badv, errv = runner.run_case_files("C06_V", VIMPORTS, "valid_case", "valid_check", vterms, shard=60)
    if errv:
        ctx.broke("correspondence (validity check) could not be evaluated in Coq", errv)
    for i in badv[:10]:
        ctx.broke("correspondence mismatch (validity check): Model/Validity.v and is_valid_expression differ", str(vmeta[i]))
    ctx.notes.setdefault("correspondence", {})["validity_check"] = {"cases": nv, "mismatches": len(badv)}
    ctx.add_eval(nv)
    return n


def replay(path):
    return evalcorr.replay_eval(path)
