"""C06 -- validity is structural; validity check and evaluation agree."""
from vlib import evalcorr, exprs
from vlib.props import c04
from vlib.runner import finish


def run(ctx):
    built, cases = c04.common(ctx, "Props/C06.vo")
    raws = c04.correspondence(ctx, cases, "C06", levels=("node",))
    # oracle: raises under some assignment <=> under all <=> structurally invalid
    per = {}
    for (t, rho), (tag, v) in zip(cases, raws):
        if not exprs.dom(t):
            continue
        per.setdefault(exprs.show(t), (t, []))[1].append((rho, tag, v))
    nontrivial = 0
    for name, (t, obs) in per.items():
        inv = [o for o in obs if o[1] == "exn" and o[2] == "InvalidExpr"]
        other = [o for o in obs if o[1] == "exn" and o[2] != "InvalidExpr"]
        if t[0] != "L":
            nontrivial += 1
        if other:
            ctx.fail(f"{name}|other", {"expression": name, "rc": other[0][0]}, "a result or the invalid-expression error", other[0][2], "oracle: in-domain expression raised another error")
        if exprs.valid(t) and inv:
            ctx.fail(f"{name}|valid-raises", {"expression": name, "rc": inv[0][0]}, "no invalid-expression error (structurally valid)", "InvalidExpressionError", "oracle: C06 valid_never")
        if not exprs.valid(t) and len(inv) != len(obs):
            ok = [o for o in obs if o[1] == "ok"]
            ctx.fail(f"{name}|invalid-evaluates", {"expression": name, "rc": ok[0][0] if ok else {}}, "invalid-expression error under every assignment (structurally invalid)", "evaluates", "oracle: C06 invalid_always")
    n_valid_api = validity_check_oracle(ctx, per)
    ctx.notes["validity_check_calls"] = n_valid_api
    ctx.coverage["distinct_nontrivial"] = nontrivial
    ctx.coverage["rule"] = ("corpus of C04 (exhaustive <= 3 leaves x all 3^m assignments + random trees); per expression the set of assignments raising "
                            "InvalidExpressionError must be all (structurally invalid) or none (valid); non-trivial = distinct in-domain expressions with an operator")
    ctx.notes["invalid_expressions"] = sum(1 for _, (t, _o) in per.items() if not exprs.valid(t))
    for name in list(per)[300:303]:
        ctx.sample({"expression": name, "structurally_valid": exprs.valid(per[name][0])})
    return finish(ctx, assumptions=["expressions are in the property's domain (dom): juxtaposition attaches one FC key to a hint or an RC-carrying operand"])


def validity_check_oracle(ctx, per):
    """is_valid_expression (with CER-based evaluators and a ContextVar setter, as in the test suite) agrees with the
    structural criterion, for AHB expressions and for trees"""
    import asyncio
    from contextvars import ContextVar

    import inject
    from efoli import EdifactFormat, EdifactFormatVersion
    from ahbicht.content_evaluation import is_valid_expression
    from ahbicht.content_evaluation.evaluationdatatypes import EvaluatableData, EvaluatableDataProvider
    from ahbicht.content_evaluation.evaluator_factory import create_content_evaluation_result_based_evaluators
    from ahbicht.content_evaluation.token_logic_provider import SingletonTokenLogicProvider, TokenLogicProvider
    from ahbicht.models.content_evaluation_result import ContentEvaluationResultSchema
    from vlib import evalimpl

    var = ContextVar("verif_cer", default=None)
    fmt, ver = EdifactFormat.UTILMD, EdifactFormatVersion.FV2210

    def data():
        return EvaluatableData(body=ContentEvaluationResultSchema().dump(var.get()), edifact_format=fmt, edifact_format_version=ver)

    def cfg(binder):
        binder.bind(TokenLogicProvider, SingletonTokenLogicProvider([*create_content_evaluation_result_based_evaluators(fmt, ver)]))
        binder.bind_to_provider(EvaluatableDataProvider, data)

    inject.clear_and_configure(cfg)
    names = sorted(per)
    ctx.rng.shuffle(names)
    n = 0
    try:
        for name in names[: 250 if ctx.quick else 4000]:
            t = per[name][0]
            if len(set(exprs.leaves(t))) > 3:
                continue
            ind = ctx.rng.choice(["Muss ", "Soll", "K", "X", "u "])
            s = ind + name
            tag, v = evalimpl.outcome(lambda: asyncio.run(is_valid_expression(s, var.set)))
            n += 1
            want = exprs.valid(t)
            if tag != "ok" or v[0] is not want or (want and v[1] is not None) or (not want and not isinstance(v[1], str)):
                ctx.fail(f"is_valid|{s}", {"expression": s}, f"({want}, {'None' if want else 'reason'})", str((tag, v))[:200], "oracle: validity check agrees with the structural criterion")
    finally:
        inject.clear()
        evalimpl._configured = False  # pylint: disable=protected-access
    ctx.add_eval(n)
    return n


def replay(path):
    return evalcorr.replay_eval(path)
