"""C06 -- validity is structural; validity check and evaluation agree."""
from vlib import evalcorr, exprs, runner
from vlib.props import c04
from vlib.runner import finish, gbool, glist, gtext

VIMPORTS = ("From Ahb Require Import Model.Prelude Model.Grammar Gen.Gen_logic Gen.Gen_valmaps Gen.Gen_enums Model.EvalRC Model.EvalFC Model.EvalAhb "
            "Model.Keys Model.Validity Corr.Eval Corr.Validity.")


def run(ctx):
    built, cases = c04.common(ctx, "Props/C06.vo")
    ok_v, log_v = runner.coq_make(["Corr/Validity.vo"]) if runner.REPLAY is None else (True, "")
    if not ok_v:
        ctx.broke("Coq build failed for Corr/Validity.vo", log_v[-1500:])
    raws = c04.correspondence(ctx, cases, "C06", levels=("node",))
    # oracle: raises under some assignment <=> under all <=> structurally invalid
    per = {}
    for (t, rho), (tag, v) in zip(cases, raws):
        if not exprs.dom(t):
            continue
        per.setdefault(exprs.show(t), (t, []))[1].append((rho, tag, v))
    nontrivial = 0
    for name, (t, obs) in per.items():
        inv = [o for o in obs if o[1] == "exn" and o[2] == "InvalidExpr"]
        other = [o for o in obs if o[1] == "exn" and o[2] != "InvalidExpr"]
        if t[0] != "L":
            nontrivial += 1
        if other:
            ctx.fail(f"{name}|other", {"expression": name, "rc": other[0][0]}, "a result or the invalid-expression error", other[0][2], "oracle: in-domain expression raised another error")
        if exprs.valid(t) and inv:
            ctx.fail(f"{name}|valid-raises", {"expression": name, "rc": inv[0][0]}, "no invalid-expression error (structurally valid)", "InvalidExpressionError", "oracle: C06 valid_never")
        if not exprs.valid(t) and len(inv) != len(obs):
            ok = [o for o in obs if o[1] == "ok"]
            ctx.fail(f"{name}|invalid-evaluates", {"expression": name, "rc": ok[0][0] if ok else {}}, "invalid-expression error under every assignment (structurally invalid)", "evaluates", "oracle: C06 invalid_always")
    n_valid_api = validity_check_oracle(ctx, per)
    ctx.notes["validity_check_calls"] = n_valid_api
    ctx.coverage["distinct_nontrivial"] = nontrivial
    ctx.coverage["rule"] = ("corpus of C04 (exhaustive <= 3 leaves x all 3^m assignments + random trees); per expression the set of assignments raising "
                            "InvalidExpressionError must be all (structurally invalid) or none (valid); non-trivial = distinct in-domain expressions with an operator")
    ctx.notes["invalid_expressions"] = sum(1 for _, (t, _o) in per.items() if not exprs.valid(t))
    for name in list(per)[300:303]:
        ctx.sample({"expression": name, "structurally_valid": exprs.valid(per[name][0])})
    return finish(ctx, assumptions=["expressions are in the property's domain (dom): juxtaposition attaches one FC key to a hint or an RC-carrying operand"])


def validity_check_oracle(ctx, per):
    """is_valid_expression (with CER-based evaluators and a ContextVar setter, as in the test suite) agrees with the
    structural criterion, for AHB expressions and for trees"""
    import asyncio
    from contextvars import ContextVar

    import inject
    from efoli import EdifactFormat, EdifactFormatVersion
    from ahbicht.content_evaluation import is_valid_expression
    from ahbicht.content_evaluation.evaluationdatatypes import EvaluatableData, EvaluatableDataProvider
    from ahbicht.content_evaluation.evaluator_factory import create_content_evaluation_result_based_evaluators
    from ahbicht.content_evaluation.token_logic_provider import SingletonTokenLogicProvider, TokenLogicProvider
    from ahbicht.models.content_evaluation_result import ContentEvaluationResultSchema
    from vlib import evalimpl

    var = ContextVar("verif_cer", default=None)
    fmt, ver = EdifactFormat.UTILMD, EdifactFormatVersion.FV2210

    def data():
        return EvaluatableData(body=ContentEvaluationResultSchema().dump(var.get()), edifact_format=fmt, edifact_format_version=ver)

    def cfg(binder):
        binder.bind(TokenLogicProvider, SingletonTokenLogicProvider([*create_content_evaluation_result_based_evaluators(fmt, ver)]))
        binder.bind_to_provider(EvaluatableDataProvider, data)

    inject.clear_and_configure(cfg)
    from ahbicht.expressions.condition_expression_parser import extract_categorized_keys_from_tree
    from vlib import valcorr

    names = sorted(per)
    ctx.rng.shuffle(names)
    n = 0
    vterms, vmeta = [], []
    try:
        for name in names[: 250 if ctx.quick else 4000]:
            t = per[name][0]
            if len(set(exprs.leaves(t))) > 3:
                continue
            ind = ctx.rng.choice(["Muss ", "Soll", "K", "X", "u "])
            s = ind + name
            tag, v = evalimpl.outcome(lambda: asyncio.run(is_valid_expression(s, var.set)))
            n += 1
            want = exprs.valid(t)
            if tag != "ok" or v[0] is not want or (want and v[1] is not None) or (not want and not isinstance(v[1], str)):
                ctx.fail(f"is_valid|{s}", {"expression": s}, f"({want}, {'None' if want else 'reason'})", str((tag, v))[:200], "oracle: validity check agrees with the structural criterion")
            # correspondence with Model/Validity.v: the resolved tree and its sanitized key lists in, the verdict out
            res = valcorr.resolved(s)
            nx = valcorr.nx_term(res)
            if nx.startswith("(Ok "):
                ex = extract_categorized_keys_from_tree(res[1], sanitize=True)
                if len(ex.format_constraint_keys) + len(ex.requirement_constraint_keys) <= 5:
                    obs = f"(Ok {gbool(bool(v[0]))})" if tag == "ok" else f"(Exn {v})"
                    vterms.append(f"({nx[4:-1]}, {glist(ex.hint_keys, gtext)}, {glist(ex.format_constraint_keys, gtext)}, {glist(ex.requirement_constraint_keys, gtext)}, {obs})")
                    vmeta.append({"expression": s, "observed": str((tag, v))[:200]})
    finally:
        inject.clear()
        evalimpl._configured = False  # pylint: disable=protected-access
    ctx.add_eval(n)
    nv, badv, errv = runner.run_case_files("C06_V", VIMPORTS, "valid_case", "valid_check", vterms, shard=60)
    if errv:
        ctx.broke("correspondence (validity check) could not be evaluated in Coq", errv)
    for i in badv[:10]:
        ctx.broke("correspondence mismatch (validity check): Model/Validity.v and is_valid_expression differ", str(vmeta[i]))
    ctx.notes.setdefault("correspondence", {})["validity_check"] = {"cases": nv, "mismatches": len(badv)}
    ctx.add_eval(nv)
    return n


def replay(path):
    return evalcorr.replay_eval(path)
