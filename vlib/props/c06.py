"""C06 -- validity is structural; validity check and evaluation agree."""
from vlib import evalcorr, exprs
from vlib.props import c04
from vlib.runner import finish


def run(ctx):
    built, cases = c04.common(ctx, "Props/C06.vo")
    raws = c04.correspondence(ctx, cases, "C06", levels=("node",))
    # oracle: raises under some assignment <=> under all <=> structurally invalid
    per = {}
    for (t, rho), (tag, v) in zip(cases, raws):
        if not exprs.dom(t):
            continue
        per.setdefault(exprs.show(t), (t, []))[1].append((rho, tag, v))
    nontrivial = 0
    for name, (t, obs) in per.items():
        inv = [o for o in obs if o[1] == "exn" and o[2] == "InvalidExpr"]
        other = [o for o in obs if o[1] == "exn" and o[2] != "InvalidExpr"]
        if t[0] != "L":
            nontrivial += 1
        if other:
            ctx.fail(f"{name}|other", {"expression": name, "rc": other[0][0]}, "a result or the invalid-expression error", other[0][2], "oracle: in-domain expression raised another error")
        if exprs.valid(t) and inv:
            ctx.fail(f"{name}|valid-raises", {"expression": name, "rc": inv[0][0]}, "no invalid-expression error (structurally valid)", "InvalidExpressionError", "oracle: C06 valid_never")
        if not exprs.valid(t) and len(inv) != len(obs):
            ok = [o for o in obs if o[1] == "ok"]
            ctx.fail(f"{name}|invalid-evaluates", {"expression": name, "rc": ok[0][0] if ok else {}}, "invalid-expression error under every assignment (structurally invalid)", "evaluates", "oracle: C06 invalid_always")
    ctx.coverage["distinct_nontrivial"] = nontrivial
    ctx.coverage["rule"] = ("corpus of C04 (exhaustive <= 3 leaves x all 3^m assignments + random trees); per expression the set of assignments raising "
                            "InvalidExpressionError must be all (structurally invalid) or none (valid); non-trivial = distinct in-domain expressions with an operator")
    ctx.notes["invalid_expressions"] = sum(1 for _, (t, _o) in per.items() if not exprs.valid(t))
    for name in list(per)[300:303]:
        ctx.sample({"expression": name, "structurally_valid": exprs.valid(per[name][0])})
    return finish(ctx, assumptions=["expressions are in the property's domain (dom): juxtaposition attaches one FC key to a hint or an RC-carrying operand"])


def replay(path):
    return evalcorr.replay_eval(path)
