"""
C15 -- each data element's format constraints see only its own input.

Tie C: segments / segment groups / deep AHBs with 2-5 free-text data elements carrying pairwise different inputs are
validated with FC evaluators that suspend a prescribed number of times (yield vector: one entry per FC evaluator call) and
read the ContextVar again AFTER yielding; RC evaluators, hint providers and package resolvers suspend as well. The same
tree with the same numbers is evaluated in the model (Model/Async.v: tree_prog / validate_segment_site; Corr/Async.v: CTree).
Oracle (implementation only): every yield vector gives the result of the all-zero vector, and the result of every
free-text element equals the result of validating that element on its own.
"""
import json
import random

from vlib import runner
from vlib.props import c12
from vlib.props.c12 import Exn, gaws, gcase, gv, harness, vectors, ycount
from vlib.runner import finish, prepare

IMPORTS = c12.IMPORTS
ASSUMPTIONS = [
    "partial: the real event loop (FIFO ready queue, wake-ups) is modelled only as 'any runnable task may step'",
    "modelled, not verified: contextvars copy-on-task-creation (asyncio.gather wraps every coroutine into a task that copies the current context); tied by the correspondence",
    "A-evaluators-pure: user evaluators are deterministic functions of (key, task-local context) without shared mutable state",
    "the overwrite `data_element.entered_input = None` of validate_data_element_valuepool touches only the element validated by that task (no other task reads it); in the model a value-pool element is an arbitrary sibling task",
    "I-C12: when several awaitables raise, only the exception class is compared",
]
PKG = {"4P": "[7][901]", "5P": "[2] U [8]"}


# ------------------------------------------------------------------ trees (JSON-able specs)
def ft(d, text, fcs, rc=None, mark="Muss", pkg=None, ident=None, joint="then"):
    """ident: the harness's own name of the element (default: the discriminator). Discriminators are neither unique nor mandatory in an AHB
    (repeated name lines of a NAD segment; None for elements not found in the MIG), so results are matched to elements by position."""
    if pkg:
        x = f"{mark} [{pkg}]"
    elif rc and joint == "U":
        x = f"{mark} [{rc}] U [{fcs[0]}]"   # and-combined: the format constraint counts whatever the requirement constraint says
    elif rc:
        x = f"{mark} [{rc}]" + "".join(f"[{k}]" for k in fcs[:1])
    elif fcs:
        x = f"{mark} " + " U ".join(f"[{k}]" for k in fcs)
    else:
        x = mark
    return {"t": "ft", "d": d, "id": ident or d, "x": x, "in": text, "fc": list(fcs), "rc": rc, "pkg": pkg, "joint": joint}


def vp(d, text, pool):
    return {"t": "vp", "d": d, "id": d, "in": text, "pool": pool}


def seg(d, x, ch, ident=None):
    return {"t": "segment", "d": d, "id": ident or d, "x": x, "ch": ch}


def grp(d, x, ch):
    """children: child groups first, then segments (the order in which validate_segment_group gathers them)"""
    return {"t": "group", "d": d, "id": d, "x": x, "ch": sorted(ch, key=lambda c: 0 if c["t"] == "group" else 1)}


def deep(ch):
    return {"t": "deep", "d": "ahb", "ch": ch}


def build(spec):
    from maus.models.anwendungshandbuch import AhbMetaInformation, DeepAnwendungshandbuch
    from maus.models.edifact_components import DataElementFreeText, DataElementValuePool, Segment, SegmentGroup, ValuePoolEntry

    t = spec["t"]
    if t == "ft":
        return DataElementFreeText(discriminator=spec["d"], ahb_expression=spec["x"], entered_input=spec["in"], data_element_id="0001")
    if t == "vp":
        return DataElementValuePool(discriminator=spec["d"], data_element_id="0002", entered_input=spec["in"],
                                    value_pool=[ValuePoolEntry(qualifier=q, meaning="m" + q, ahb_expression=x) for q, x in spec["pool"]])
    if t == "segment":
        return Segment(discriminator=spec["d"], ahb_expression=spec["x"], data_elements=[build(c) for c in spec["ch"]])
    if t == "group":
        return SegmentGroup(discriminator=spec["d"], ahb_expression=spec["x"],
                            segment_groups=[build(c) for c in spec["ch"] if c["t"] == "group"],
                            segments=[build(c) for c in spec["ch"] if c["t"] == "segment"])
    return DeepAnwendungshandbuch(meta=AhbMetaInformation(pruefidentifikator="12345"), lines=[build(c) for c in spec["ch"]])


def elements(spec):
    if spec["t"] in ("ft", "vp"):
        yield spec
    else:
        for c in spec["ch"]:
            yield from elements(c)


def ident(spec):
    return spec.get("id", spec["d"])


class OutOfOrder(Exception):
    pass


def pair(spec, results):
    """{element / node ident: validation result}: the report is read as a stream in document order (a node's row, then the rows of its children
    unless the node is reported forbidden) -- by position, so that repeated discriminators are told apart"""
    out, pos = {}, [0]

    def go(s):
        if s["t"] == "deep":
            for c in s["ch"]:
                go(c)
            return
        if pos[0] >= len(results) or results[pos[0]].discriminator != s["d"]:
            raise OutOfOrder(f"row {pos[0]}: expected the row of {ident(s)!r} (discriminator {s['d']!r})")
        r = results[pos[0]].validation_result
        out[ident(s)] = r
        pos[0] += 1
        if s["t"] in ("segment", "group") and r.requirement_validation.name != "IS_FORBIDDEN":
            for c in s["ch"]:
                go(c)

    go(spec)
    if pos[0] != len(results):
        raise OutOfOrder(f"{len(results) - pos[0]} rows beyond the document")
    return out


def parent_segments(spec, parent=None):
    if spec["t"] in ("ft", "vp"):
        yield ident(spec), parent
    else:
        for c in spec["ch"]:
            yield from parent_segments(c, spec if spec["t"] == "segment" else parent)


def canon_results(rs):
    return [(r.discriminator, repr(r.validation_result)) for r in rs]


class TreeScenario:
    def __init__(self, name, spec, rc, expected):
        self.name, self.spec, self.rc, self.expected = name, spec, rc, expected
        self.kind = {"segment": "validate_segment", "group": "validate_segment_group", "deep": "validate_deep_anwendungshandbuch"}[spec["t"]]
        self.fts = [e for e in elements(spec) if e["t"] == "ft"]
        texts = [e["in"] for e in self.fts]
        assert len(set(texts)) == len(texts), "inputs must be pairwise different"
        # one vector entry per FC evaluator call that takes place (the element's RC part is fulfilled)
        self.slots = []
        for e in self.fts:
            for k in self.fc_keys(e):
                self.slots.append((("fc", k, e["in"]), 0))
        self.params = {"tree": spec, "rc": rc, "expected": expected}

    def fc_keys(self, e):
        if e["pkg"] == "4P":
            return ["901"] if self.rc.get("7") == "FULFILLED" else []
        if e["pkg"]:
            return []
        if e["rc"] and e.get("joint") == "U":
            return e["fc"][:1]
        if e["rc"] and self.rc.get(e["rc"]) != "FULFILLED":
            return []
        return e["fc"][:1] if e["rc"] else e["fc"]

    def expected_format(self, e):
        """the format verdict the statement demands for a free-text element: every format constraint that takes part (fc_keys; they are and-combined)
        judged against the element's OWN entered input by the harness's evaluators (fulfilled iff the input is the text the evaluator expects)"""
        return all(self.expected.get(k) == e["in"] for k in self.fc_keys(e))

    def yields_of(self, vec):
        y = {}
        for (tag, _), n in zip(self.slots, vec):
            y[tag] = [n]
        # the other awaitables (RC evaluators, hint providers, package resolvers) suspend too: derived from the vector
        bg = random.Random(repr(tuple(vec)))
        zero = not any(vec)
        for k in c12.RC_KEYS:
            y[("rc", k)] = [0 if zero else bg.randint(0, 2)]
        for k in ("501", "502"):
            y[("hint", k)] = [0 if zero else bg.randint(0, 2)]
        for k in PKG:
            y[("pkg", k)] = [0 if zero else bg.randint(0, 2)]
        return y

    def run(self, vec):
        from ahbicht.validation.validation import validate_deep_anwendungshandbuch, validate_segment, validate_segment_group

        H = harness()
        yields = self.yields_of(vec)
        H.reset(rc=self.rc, hints={"501": "Hinweis A", "502": "Hinweis B"}, fc_expected=self.expected, pkg=PKG, yields=yields)
        obj = build(self.spec)
        fn = {"segment": validate_segment, "group": validate_segment_group, "deep": validate_deep_anwendungshandbuch}[self.spec["t"]]

        async def main():
            H.text_var.set("text of the caller")
            return await fn(obj)

        out = H.run(main)
        log = list(H.log)
        if out[0] == "exn":
            return ("exn", out[1]), None, log, yields
        return ("ok", canon_results(out[1])), out[1], log, yields

    # -- the model case for this run
    def model_case(self, yields, results, log):
        def spec_term(s):
            if s["t"] == "ft":
                fcs = [(ycount(yields, ("fc", k, s["in"])), self.expected.get(k)) for k in self.fc_keys(s)]
                pre = ycount(yields, ("pkg", s["pkg"])) if s["pkg"] else 0
                mid = ycount(yields, ("rc", s["rc"])) if s["rc"] else 0
                return f"SElem {pre} {gv(s['in'])} {mid} {gaws(fcs)}"
            if s["t"] == "vp":
                return "STask 1 VNone"
            return "SNode 0 [" + "; ".join(spec_term(c) for c in s["ch"]) + "]"

        try:
            by_d = pair(self.spec, results) if results is not None else {}
        except OutOfOrder:
            by_d = {}

        def obs(s):
            if s["t"] == "ft":
                r = by_d.get(ident(s))
                recs = []
                for k in self.fc_keys(s):
                    es = [e for e in log if e[0] == "fc" and e[1] == k and e[2] == s["in"]]
                    recs.append([es[0][2], es[0][3], es[0][4]] if len(es) == 1 else None)
                return [r.format_validation_fulfilled if r is not None else None, recs]
            if s["t"] == "vp":
                return None
            return [obs(c) for c in s["ch"]]

        return f"CTree ({spec_term(self.spec)})", obs(self.spec)

    # -- oracle: every free-text element on its own
    def alone(self, results):
        from ahbicht.validation.validation import validate_data_element_freetext

        H = harness()
        by_d = pair(self.spec, results)
        parents = dict(parent_segments(self.spec))
        out = {}
        for e in self.fts:
            H.reset(rc=self.rc, hints={"501": "Hinweis A", "502": "Hinweis B"}, fc_expected=self.expected, pkg=PKG, yields={})
            p = parents[ident(e)]
            req = by_d[ident(p)].requirement_validation if p is not None else None
            el = build(e)

            async def main(el=el, req=req):
                H.text_var.set(el.entered_input)  # "with its own input", also for a tree where the callee does not set it
                return await validate_data_element_freetext(el, req)

            a = H.run(main)
            out[ident(e)] = repr(a[1].validation_result) if a[0] == "ok" else f"raises {a[1]}"
        return out


def builtin_time_oracle(ctx):
    """the library's own text-dependent format constraints (932-935, what UB1-UB3 expand to) on sibling elements whose different inputs denote the
    same instant: each element's verdict and message are about ITS input (implementation-side oracle; these evaluators are not in the model)"""
    from datetime import datetime

    from ahbicht.validation.validation import validate_segment

    inputs = ["2024-05-01T10:00:00+00:00", "2024-05-01T12:00:00+02:00", "2024-05-01T05:00:00-05:00", "2024-05-01T15:30:00+05:30", "2023-12-31T23:00:00+00:00"]
    keys = ["932", "932", "934", "933", "932"]
    n = 0
    for order in (list(range(5)), [4, 3, 2, 1, 0], [1, 0, 3, 2, 4]):
        els = [ft(f"T{i}", inputs[i], [keys[i]], mark="X") for i in order]
        H = harness()
        H.reset(rc={}, hints={}, fc_expected={}, pkg=PKG, yields={})
        obj = build(seg("S", "Muss", els))

        async def main(obj=obj):
            H.text_var.set("text of the caller")
            return await validate_segment(obj)

        out = H.run(main)
        n += 1
        inp = {"kind": "validate_segment", "scenario": "builtin-time", "params": {"inputs": [inputs[i] for i in order], "keys": [keys[i] for i in order]}, "yield_vector": []}
        if out[0] != "ok":
            ctx.fail(f"builtin-time|{order}|raises", inp, "a validation result", repr(out[1]), "oracle: built-in time constraints on sibling elements")
            continue
        by_d = {r.discriminator: r.validation_result for r in out[1]}
        for i in order:
            r = by_d.get(f"T{i}")
            own = datetime.fromisoformat(inputs[i]).isoformat()
            is_limit = inputs[i].startswith("2023-12-31T23:00:00")   # 00:00 German local time on 2024-01-01
            ok = r is not None and r.format_validation_fulfilled is is_limit and (is_limit or (r.format_error_message is not None and own in r.format_error_message))
            if not ok:
                ctx.fail(f"builtin-time|{order}|T{i}", dict(inp, element=f"T{i}"), f"fulfilled={is_limit}" + ("" if is_limit else f", message about '{own}'"),
                         repr(r), "oracle: the element's result is about its own input (built-in time constraint, siblings with the same instant)")
    return n


def scenarios(ctx):
    rng = ctx.rng
    rc = {"1": "FULFILLED", "2": "FULFILLED", "3": "UNFULFILLED", "7": "FULFILLED", "8": "UNFULFILLED"}
    for k in c12.RC_KEYS:
        rc.setdefault(k, "FULFILLED")
    S = []
    S.append(TreeScenario("seg2", seg("S", "Muss", [ft("D1", "alpha", ["901"]), ft("D2", "beta", ["902"])]), rc, {"901": "alpha", "902": "beta"}))
    S.append(TreeScenario("seg2-cross", seg("S", "Muss [1]", [ft("D1", "alpha", ["901"]), ft("D2", "beta", ["902"])]), rc, {"901": "beta", "902": "alpha"}))
    S.append(TreeScenario("seg3-same-key", seg("S", "Muss", [ft("D1", "alpha", ["901"]), ft("D2", "bravo", ["901"]), ft("D3", "charlie", ["901"])]), rc, {"901": "bravo"}))
    S.append(TreeScenario("seg4", seg("S", "Muss [2]", [ft("D1", "a1", ["901"]), ft("D2", "a2", ["902"]), ft("D3", "a3", ["903"]), ft("D4", "a4", ["901"])]), rc,
                          {"901": "a4", "902": "a2", "903": "zz"}))
    S.append(TreeScenario("seg-two-fcs", seg("S", "Muss", [ft("D1", "alpha", ["901", "902"]), ft("D2", "beta", ["902", "901"])]), rc, {"901": "alpha", "902": "beta"}))
    S.append(TreeScenario("seg-valuepool", seg("S", "Muss", [ft("D1", "alpha", ["901"]), vp("V1", "ZZ", [("A", "X [1]"), ("B", "X [3]"), ("C", "X [2] O [501]")]),
                                                              ft("D2", "beta", ["901"]), vp("V2", "A", [("A", "X")])]), rc, {"901": "beta"}))
    S.append(TreeScenario("seg-rc", seg("S", "Muss [1] U [2]", [ft("D1", "alpha", ["901"], rc="1"), ft("D2", "beta", ["902"], rc="3", mark="Soll"), ft("D3", "gamma", ["902"], rc="2", mark="Kann")]),
                          rc, {"901": "alpha", "902": "gamma"}))
    S.append(TreeScenario("seg-rc-and-fc", seg("S", "Muss", [ft("D1", "alpha", ["901"], rc="3", joint="U"), ft("D2", "beta", ["902"], rc="1", joint="U"),
                                                              ft("D3", "gamma", ["901"], rc="3", mark="Soll", joint="U"), ft("D4", "", ["902"], rc="8", mark="X", joint="U")]), rc,
                          {"901": "zz", "902": "beta"}))
    S.append(TreeScenario("seg-none", seg("S", "Muss", [ft("D1", None, ["904"]), ft("D2", "beta", ["904"]), ft("D3", "", ["901"])]), rc, {"904": None, "901": ""}))
    # optional segments, elements left empty next to elements whose own input violates their format constraint
    S.append(TreeScenario("seg-optional-last-empty", seg("S", "Kann", [ft("D1", "alpha", ["901"]), ft("D2", "beta", ["902"]), ft("D3", None, ["903"])]), rc,
                          {"901": "zz", "902": "beta", "903": None}))
    S.append(TreeScenario("seg-optional-first-empty", seg("S", "Kann [1]", [ft("D1", "", ["901"]), ft("D2", "beta", ["902"]), ft("D3", "gamma", ["903"])]), rc,
                          {"901": "", "902": "zz", "903": "gamma"}))
    S.append(TreeScenario("group-optional", grp("G", "Kann", [seg("S1", "Muss", [ft("D1", "alpha", ["901"]), ft("D2", "", ["902"])]),
                                                              seg("S2", "Soll [2]", [ft("D3", "gamma", ["901"]), ft("D4", None, ["902"])])]), rc, {"901": "gamma", "902": "zz"}))
    S.append(TreeScenario("seg-same-discriminator", seg("NAD", "Muss", [ft("3036", "alpha", ["901"], ident="name1"), ft("3036", "beta", ["901"], ident="name2"),
                                                                       ft("3036", "gamma", ["902"], ident="name3"), ft("3124", "delta", ["902"])]), rc, {"901": "beta", "902": "delta"}))
    S.append(TreeScenario("seg-no-discriminator", seg("S", "Muss [1]", [ft(None, "alpha", ["901"], ident="first"), ft(None, "beta", ["901"], ident="second"), ft("D3", "", ["901"])]), rc,
                          {"901": "alpha"}))
    S.append(TreeScenario("group-same-discriminators", grp("SG2", "Muss", [seg("NAD", "Muss", [ft("3036", "alpha", ["901"], ident="a1"), ft("3036", "beta", ["902"], ident="a2")], ident="NAD-MS"),
                                                                          seg("NAD", "Muss", [ft("3036", "gamma", ["901"], ident="b1"), ft("3036", "delta", ["902"], ident="b2")], ident="NAD-MR")]), rc,
                          {"901": "gamma", "902": "beta"}))
    S.append(TreeScenario("seg-packages", seg("S", "Muss [5P] O [1]", [ft("D1", "alpha", [], pkg="4P"), ft("D2", "beta", ["901"]), ft("D3", "gamma", [], pkg="4P")]), rc, {"901": "gamma"}))
    S.append(TreeScenario("group", grp("G", "Muss [1]", [seg("S1", "Muss", [ft("D1", "alpha", ["901"]), ft("D2", "beta", ["902"])]),
                                                          seg("S2", "Soll [2]", [ft("D3", "gamma", ["901"]), ft("D4", "delta", ["902"])])]), rc, {"901": "gamma", "902": "beta"}))
    S.append(TreeScenario("group-nested", grp("G", "Muss", [grp("G2", "Kann [2]", [seg("S3", "Muss", [ft("D5", "eps", ["901"])])]),
                                                             seg("S1", "Muss", [ft("D1", "alpha", ["901"]), vp("V1", "Q", [("A", "X [1]"), ("B", "X [2]")])]),
                                                             seg("S2", "Muss", [ft("D3", "gamma", ["901"])])]), rc, {"901": "eps"}))
    S.append(TreeScenario("deep", deep([grp("G1", "Muss", [seg("S1", "Muss", [ft("D1", "alpha", ["901"]), ft("D2", "beta", ["902"])])]),
                                        grp("G2", "Soll [1]", [seg("S2", "Muss [2]", [ft("D3", "gamma", ["901"]), ft("D4", "delta", ["902"])])])]), rc, {"901": "alpha", "902": "delta"}))
    # inputs with surrounding white space are inputs of their own: "alpha " is not "alpha"
    S.append(TreeScenario("deep-padded-inputs", deep([grp("G1", "Muss", [seg("S1", "Muss", [ft("D1", "alpha ", ["901"]), ft("D2", " beta", ["902"]), ft("D3", "gamma\n", ["903"]),
                                                                                             ft("D4", "\tdelta", ["901"])])])]), rc, {"901": "alpha ", "902": "beta", "903": "gamma\n"}))
    S.append(TreeScenario("seg-padded-inputs", seg("S", "Muss", [ft("D1", "alpha\xa0", ["901"]), ft("D2", "alpha", ["901"]), ft("D3", " ", ["902"])]), rc, {"901": "alpha", "902": " "}))
    S.append(TreeScenario("deep5", deep([grp("G1", "Muss", [seg("S1", "Muss", [ft("D1", "t1", ["901"]), ft("D2", "t2", ["901"]), ft("D3", "t3", ["901"])])]),
                                         grp("G2", "Muss", [grp("G3", "Muss", [seg("S2", "Muss", [ft("D4", "t4", ["901"])])]), seg("S3", "Muss", [ft("D5", "t5", ["901"])])])]), rc, {"901": "t4"}))
    # random segments: 2-5 elements, 1-2 format constraints each
    for i in range(4 if ctx.quick else 40):
        n = rng.randint(2, 5)
        texts = rng.sample(["alpha", "beta", "gamma", "delta", "eps", "zeta", "eta"], n)
        if rng.random() < 0.4:   # an element left empty (often the last one)
            texts[rng.choice((-1, -1, 0, rng.randrange(n)))] = rng.choice((None, ""))
        els = []
        for j, t in enumerate(texts):
            fcs = rng.sample(["901", "902", "903"], rng.randint(1, 2))
            els.append(ft(f"D{j}", t, fcs, rc=rng.choice([None, None, "1", "3"])))
            if rng.random() < 0.2:
                els.append(vp(f"V{j}", rng.choice(["A", "ZZ", None]), [("A", "X [1]"), ("B", "X [3]")]))
        expected = {k: rng.choice(texts) for k in ("901", "902", "903")}
        S.append(TreeScenario(f"rand{i}", seg("S", rng.choice(["Muss", "Muss [1]", "Soll [2]", "Kann", "Kann [2]"]), els), rc, expected))
    return S


def run(ctx):
    from vlib import impl  # noqa: F401

    built = prepare(ctx, [], ["Props/C15.vo", "Corr/Async.vo"])
    ctx.trusted += ["asyncio.gather / task contexts / contextvars modelled by Model/Async.v (Par copies the context), tied by this correspondence",
                    "maus data classes as plain records"]
    terms, meta, seen = [], [], set()
    n_runs = n_nontrivial = n_alone = 0
    exhaustive = []
    S = scenarios(ctx)
    for sc in S:
        vecs, exh = vectors(ctx, len(sc.slots))
        if exh:
            exhaustive.append((sc.name, len(sc.slots), len(vecs)))
        base = alone = None
        for vi, vec in enumerate(vecs):
            out, results, log, yields = sc.run(vec)
            n_runs += 1
            inp = {"kind": sc.kind, "scenario": sc.name, "params": sc.params, "yield_vector": list(vec)}
            if base is None:
                base = out
                if results is not None:
                    try:
                        alone = sc.alone(results)
                        n_alone += len(alone)
                    except OutOfOrder:
                        alone = None
            if out != base:
                ctx.fail(f"{sc.name}|order", inp, repr(base)[:1500], repr(out)[:1500], "oracle: result for this yield vector differs from the result when nothing yields")
            if results is not None:
                try:
                    paired = pair(sc.spec, results)
                except OutOfOrder as ooo:
                    paired = {}
                    ctx.fail(f"{sc.name}|document-order", inp, "one row per visited node, in document order", f"{ooo}: {[r.discriminator for r in results]}",
                             "oracle: the report cannot be matched to the tree position by position")
                for e_ in sc.fts:
                    r_ = paired.get(ident(e_))
                    if r_ is not None and hasattr(r_, "format_validation_fulfilled") and r_.format_validation_fulfilled != sc.expected_format(e_):
                        ctx.fail(f"{sc.name}|format-verdict|{ident(e_)}", dict(inp, element=ident(e_)),
                                 f"format_validation_fulfilled = {sc.expected_format(e_)} (constraints {sc.fc_keys(e_)} against the element's own input {e_['in']!r})",
                                 f"{r_.format_validation_fulfilled} ({r_.format_error_message!r})",
                                 "oracle: the element's format constraints are evaluated against its own entered input")
                for el_id, res_el in paired.items():
                    if alone is not None and el_id in alone and repr(res_el) != alone[el_id]:
                        ctx.fail(f"{sc.name}|own-input|{el_id}", dict(inp, element=el_id), alone[el_id], repr(res_el),
                                 "oracle: the element's result differs from validating the element on its own with its own input")
            leaks = [e for e in log if (e[0] == "fc" and e[2] != e[3]) or e[0] == "other-version"]
            if leaks:
                ctx.fail(f"{sc.name}|leak", inp, "every FC evaluator finds, after yielding, the text it was called with", repr(leaks[:4]), "oracle: ContextVar changed under a running evaluator")
            if any(vec):
                n_nontrivial += 1
            term, obs = sc.model_case(yields, results, log) if out[0] == "ok" else (sc.model_case(yields, None, log)[0], Exn(out[1]))
            key = (term, gv(obs))
            if key not in seen:
                seen.add(key)
                terms.append(gcase(term, c12.explicit_schedules(ctx, len(terms)), obs))
                meta.append((sc.name, list(vec), term, obs))
            if vi == 1:
                ctx.sample({"scenario": sc.name, "entry_point": sc.kind, "tree": sc.spec, "yield_vector": list(vec), "result": repr(out)[:400]})
    n_runs += builtin_time_oracle(ctx)
    n, bad, err = runner.run_case_files("C15", IMPORTS, "async_case", "async_check", terms, shard=150)
    if err:
        ctx.broke("correspondence (validation skeleton) could not be evaluated in Coq", err)
    for i in bad[:15]:
        name, vec, term, obs = meta[i]
        ctx.broke("correspondence mismatch: model (den / explicit schedules) and ahbicht differ", json.dumps({"scenario": name, "yields": vec, "skeleton": term[:600], "observed": repr(obs)[:600]}, ensure_ascii=False))
    # the witness of C15_refuted_when_set_in_parent evaluated through the same correspondence function (model only)
    wit = "(CTreeSetInParent 0 [(0, VT [97]%N, 1, [(1, VT [97]%N)]); (0, VT [98]%N, 1, [(1, VT [98]%N)])], [[]; [2519; 2519; 2519; 2519; 2519; 2519; 2519; 2519; 2519; 2519; 2519; 2519]], " \
          "VL [VL [VB false; VL [VL [VT [98]%N; VT [98]%N; VB false]]]; VL [VB true; VL [VL [VT [98]%N; VT [98]%N; VB true]]]])"
    nw, badw, errw = runner.run_case_files("C15_wit", IMPORTS, "async_case", "async_check", [wit])
    if errw or badw:
        ctx.broke("the refutation witness (set in parent) no longer evaluates as stated", errw or wit)
    ctx.notes["correspondence"] = {"model_cases": n, "mismatches": len(bad), "implementation_runs": n_runs, "elements_validated_alone": n_alone, "scenarios": len(S),
                                   "exhaustive_yield_vectors": [f"{a}: {{0..{2 if ctx.quick else 3}}}^{b} = {c}" for a, b, c in exhaustive][:80]}
    ctx.add_eval(n_runs + n + nw)
    ctx.coverage["distinct_nontrivial"] = n_nontrivial
    ctx.coverage["exhaustive"] = False
    ctx.notes["exhaustive_scope"] = f"all yield vectors in {{0..{2 if ctx.quick else 3}}}^n for every tree with n <= {4 if ctx.quick else 5} FC evaluator calls ({len(exhaustive)} trees); random vectors in {{0..3}}^n beyond"
    ctx.coverage["rule"] = ("validate_segment / validate_segment_group / validate_deep_anwendungshandbuch on trees with 2-5 free-text elements with pairwise different inputs (also None and ''), "
                            "1-2 format constraints each (same and different keys), value-pool siblings with illegal input, package and RC prefixed expressions, nested groups; "
                            "one yield count per FC evaluator call (RC/hint/package awaitables yield pseudo-randomly derived from the vector); non-trivial = runs with a non-zero vector; "
                            "every distinct (tree skeleton, observation) compared with the model's den and, on every 7th case, 3 explicit schedules")
    return finish(ctx, assumptions=ASSUMPTIONS)


def replay(path):
    r = json.load(open(path, encoding="utf-8"))
    inp = r["input"]
    p = inp["params"]
    sc = TreeScenario(inp["scenario"], p["tree"], p["rc"], p["expected"])
    out0, res0, _, _ = sc.run([0] * len(sc.slots))
    out1, res1, log, _ = sc.run(inp["yield_vector"])
    print("replay", sc.name, sc.kind, "yield vector", inp["yield_vector"])
    print("nothing yields :", out0)
    print("this vector    :", out1)
    rc = 0 if out0 == out1 else 1
    if res1 is not None:
        try:
            alone, paired = sc.alone(res1), pair(sc.spec, res1)
        except OutOfOrder as ooo:
            print("the report cannot be matched to the tree:", ooo)
            return 1
        for el_id, x in paired.items():
            if el_id in alone:
                same = alone[el_id] == repr(x)
                rc |= 0 if same else 1
                print(f"element {el_id}: alone = {alone[el_id]}\n            in tree = {x!r}   {'OK' if same else 'DIFFERENT'}")
    print("texts seen by the FC evaluators (key, at start, after yielding, fulfilled):", [e[1:] for e in log if e[0] == "fc"])
    print("recorded expected:", r["expected"][:300], "\nrecorded observed:", r["observed"][:300])
    return rc
