"""
C11 -- parse caching is invisible.

Tie T: Gen_cache (what tree_copy returns, decorator order, maxsize, raise) against the behaviour of the loaded functions
       (identity / sharing of the returned objects with the cached ones reached through `decorated.__closure__`).
Tie C: random histories of parse calls (both parsers, repeated and fresh strings, more strings than the cache holds in
       the thorough tier) interleaved with in-place edits of previously returned trees; the model (Model/Heap.v) runs the
       same history with strings as ids and pure_parse given by the table of uncached `_parser.parse(s)` results;
       observation = serialised tree returned by every parse (and by a few read-backs of old handles).
Oracle (implementation only): every returned tree equals the uncached parse of its string, and evaluating it gives the
       same result as evaluating a fresh parse.
"""
import copy
import hashlib
import json
import os
import time

from vlib import runner
from vlib.runner import finish, prepare

IMPORTS = "From Ahb Require Import Model.Prelude Gen.Gen_cache Model.Heap Corr.Heap."
PARSERS = ("cond", "ahb")
GPARSER = {"cond": "PCond", "ahb": "PAhb"}
NODE_CAP = 1500  # serialisation budget of one observed tree (only reachable when the cache is poisoned)


class TooBig(Exception):
    pass


# ------------------------------------------------------------------ implementation access
class _Caches:
    """zero or more lru_cache wrappers seen as one (hit/miss counts added up)"""

    def __init__(self, fs):
        self.fs = list(fs)

    def cache_info(self):
        import collections

        infos = [f.cache_info() for f in self.fs]
        CI = collections.namedtuple("CacheInfo", "hits misses maxsize currsize")
        return CI(sum(i.hits for i in infos), sum(i.misses for i in infos), infos[0].maxsize if infos else 0, sum(i.currsize for i in infos))

    def cache_clear(self):
        for f in self.fs:
            f.cache_clear()

    def cache_parameters(self):
        return {"maxsize": self.fs[0].cache_parameters()["maxsize"] if self.fs else None}

    def __call__(self, s):
        return self.fs[0](s) if self.fs else None


class Impl:
    """the two decorated parse functions, the lru-cached functions behind them and the raw Lark parsers"""

    def __init__(self):
        from vlib import impl  # noqa: F401
        from ahbicht.expressions import ahb_expression_parser as ap
        from ahbicht.expressions import condition_expression_parser as cp

        self.fn = {"cond": cp.parse_condition_expression_to_tree,
                   "ahb": ap.parse_ahb_expression_to_single_requirement_indicator_expressions}
        self.lark = {"cond": cp._parser, "ahb": ap._parser}  # pylint: disable=protected-access
        self.cached, self.order_ok = {}, True
        for p, f in self.fn.items():
            if hasattr(f, "cache_info"):  # lru_cache is the outermost wrapper
                self.cached[p], self.order_ok = f, False
                continue
            cells = [c.cell_contents for c in (f.__closure__ or ()) if hasattr(c.cell_contents, "cache_info")]
            if len(cells) != 1:
                # not the decorator stack the translator knows (it fails closed on its own): the histories must still run, so take
                # whatever lru_cache wrappers the parser module holds -- or none -- and treat the entry point as a black box
                mod = {"cond": cp, "ahb": ap}[p]
                cells = [v for v in vars(mod).values() if callable(v) and hasattr(v, "cache_info") and hasattr(v, "cache_clear")]
                self.cached[p], self.order_ok = _Caches(cells), False
                continue
            self.cached[p] = cells[0]

    def clear(self):
        for c in self.cached.values():
            c.cache_clear()

    def uncached(self, p, s):
        """('ok', canonical tree) | ('exn', class) of the raw Lark parser"""
        from lark.exceptions import UnexpectedInput

        from vlib import impl

        try:
            return ("ok", ser(self.lark[p].parse(s)))
        except UnexpectedInput:
            return ("exn", "SyntaxErr")  # the parse functions turn Lark's input errors into SyntaxError
        except Exception as e:  # pylint: disable=broad-except
            return ("exn", impl.exc_class(e))

    def call(self, p, s):
        """the cached entry point: (tree | None, ('ok', canonical) | ('exn', class))"""
        from vlib import impl

        try:
            t = self.fn[p](s)
        except Exception as e:  # pylint: disable=broad-except
            return None, ("exn", impl.exc_class(e))
        return t, ("ok", ser(t))


def ser(t, budget=None):
    """lark Tree/Token -> nested tuples ('T', data, (children...)) / ('K', type, value)"""
    from lark import Token, Tree

    budget = budget if budget is not None else [NODE_CAP]

    def go(x, depth):
        budget[0] -= 1
        if budget[0] < 0 or depth > 120:
            raise TooBig()
        if isinstance(x, Tree):
            return ("T", str(x.data), tuple(go(k, depth + 1) for k in x.children))
        if isinstance(x, Token):
            return ("K", str(x.type), str(x))
        raise TypeError(f"unexpected node {type(x).__name__}")

    return go(t, 0)


def unser(c):
    from lark import Token, Tree

    if c[0] == "K":
        return Token(c[1], c[2])
    return Tree(c[1], [unser(k) for k in c[2]])


def to_json(c):
    return ["K", c[1], c[2]] if c[0] == "K" else ["T", c[1], [to_json(k) for k in c[2]]]


def from_json(j):
    return ("K", j[1], j[2]) if j[0] == "K" else ("T", j[1], tuple(from_json(k) for k in j[2]))


def mutable_ids(t, acc, cap=400):
    from lark import Tree

    if isinstance(t, Tree) and len(acc) < cap and id(t.children) not in acc:
        acc.add(id(t))
        acc.add(id(t.children))
        for k in t.children:
            mutable_ids(k, acc, cap)
    return acc


def unfolded_size(t, cap):
    from lark import Tree

    n, stack = 0, [t]
    while stack and n <= cap:
        x = stack.pop()
        n += 1
        if isinstance(x, Tree):
            stack.extend(x.children)
    return n


# ------------------------------------------------------------------ Gallina printing
class Printer:
    def __init__(self):
        self.labels, self.defs = {}, []

    def lbl(self, s):
        if s not in self.labels:
            self.labels[s] = f"L{len(self.labels)}"
            self.defs.append(f"Definition {self.labels[s]} : text := {runner.gtext(s)}.")
        return self.labels[s]

    def tree(self, c):
        if c[0] == "K":
            return f"(ATok {self.lbl(c[1])} {self.lbl(c[2])})"
        return f"(ATree {self.lbl(c[1])} [" + "; ".join(self.tree(k) for k in c[2]) + "])"


def nat_list(xs):
    return "[" + "; ".join(str(x) for x in xs) + "]" if xs else "(@nil nat)"


# ------------------------------------------------------------------ string pools
def confusable(rng, s):
    """a different string that a cache key normalisation (strip, casefold, drop line breaks / white space, collapse blanks) would identify
    with s; it may well parse differently (white space inside a key makes it malformed, inside an AHB condition part changes the token)"""
    k = rng.choice(("ws", "ws", "nl", "nl", "case", "edge", "dup", "zero", "zero", "fold"))
    if k == "fold":
        # another string with the same FULL case folding (str.casefold): the sharp s for ss, the long s, the Kelvin sign -- not what the grammar's /i identifies
        cands = [(m.start(), len(a), b) for a, bs in (("ss", "ßẞ"), ("SS", "ßẞ"), ("Ss", "ß"), ("s", "ſ"), ("S", "ſ"), ("k", "\u212a"), ("K", "\u212a"))
                 for m in __import__("re").finditer(a, s) for b in bs]
        if cands:
            i, n_, b = rng.choice(cands)
            return s[:i] + b + s[i + n_:]
        k = "case"
    if k == "zero":
        # the same number in another spelling: [7] / [07] / [007] are different strings with different trees (the token keeps its text)
        import re

        runs = list(re.finditer(r"(?<=\[)\s*\d+", s))
        if runs:
            m = rng.choice(runs)
            digits = m.group(0).strip()
            new = digits.lstrip("0") or "0" if digits.startswith("0") and rng.random() < 0.5 else "0" * rng.randint(1, 2) + digits
            return s[:m.start()] + m.group(0).replace(digits, new) + s[m.end():]
        k = "ws"
    if k in ("ws", "nl") and s:
        i = rng.randint(0, len(s))
        return s[:i] + (rng.choice((" ", "\t", "  ")) if k == "ws" else rng.choice(("\n", "\r\n", "\n "))) + s[i:]
    if k == "case":
        return s.swapcase()
    if k == "edge":
        return rng.choice((" ", "\n", "")) + s + rng.choice((" ", "\n", "\t"))
    if k == "dup" and " " in s:
        return s.replace(" ", "  ", 1)
    return s + " "


def cond_strings(rng, n):
    ops = ["U", "O", "X", " U ", " O ", " X ", "∧", "∨", "⊻", "", " "]
    out, seen = [], set()

    def atom():
        r = rng.random()
        if r < 0.70:
            return f"[{rng.choice([rng.randint(1, 60), rng.randint(1, 60), rng.randint(501, 520), rng.randint(901, 920), rng.randint(1, 1999)])}]"
        if r < 0.85:
            return f"[{rng.randint(1, 99)}P]"
        if r < 0.93:
            return f"[{rng.randint(1, 99)}P{rng.randint(0, 2)}..{rng.randint(3, 9)}]"
        return f"[UB{rng.randint(1, 3)}]"

    def expr(k):
        if k == 1:
            return atom()
        i = rng.randint(1, k - 1)
        l, r = expr(i), expr(k - i)
        if rng.random() < 0.3:
            r = "(" + r + ")"
        if rng.random() < 0.15:
            l = "(" + l + ")"
        return l + rng.choice(ops) + r

    bad = ["[1]U", "U[2]", "([3]", "[4])", "[]", "[1]UU[2]", "foo", "[1] U ([2] O )", "[0x1]", "", "[1P", "[UB4]", "[1]O[2]X", ")("]
    while len(out) < n:
        if rng.random() < 0.08:
            s = rng.choice(bad) + (" " * rng.randint(0, 3)) + (f"[{rng.randint(1, 999)}]" if rng.random() < 0.5 else "")
            if rng.random() < 0.5:
                s = f"[{rng.randint(1, 999)}]" + s
        elif out and rng.random() < 0.22:
            s = confusable(rng, rng.choice(out[-40:]))
        else:
            s = expr(rng.choice([1, 1, 2, 2, 2, 3, 3, 4]))
        if s not in seen:
            seen.add(s)
            out.append(s)
    return out


def ahb_strings(rng, n):
    marks = ["Muss", "Soll", "Kann", "M", "S", "K", "muss", "SOLL", "X", "O", "U", "x"]
    out, seen = [], set()

    def cond():
        k = rng.randint(1, 3)
        return rng.choice(["U", "O", "X", " U ", "∧", "∨"]).join(f"[{rng.randint(1, 999)}]" for _ in range(k))

    bad = ["Foo [1]", "[1]", "Muss Muss [1] Soll", "", "Muss [1] ? [2]", "Q", "M[1]S", "12", "Muss [1] {2}"]
    while len(out) < n:
        r = rng.random()
        if r < 0.08:
            s = rng.choice(bad) + (f"[{rng.randint(1, 999)}]" if rng.random() < 0.6 else "")
        elif r < 0.16:
            s = rng.choice(marks)
        elif r < 0.36 and out:
            s = confusable(rng, rng.choice(out[-40:]))
        elif r < 0.6:
            s = rng.choice(marks) + rng.choice(["", " "]) + cond()
        else:
            parts = [rng.choice(marks[:9]) + rng.choice(["", " "]) + cond() for _ in range(rng.randint(2, 3))]
            s = " ".join(parts) + (" " + rng.choice(marks[:6]) if rng.random() < 0.2 else "")
        if s not in seen:
            seen.add(s)
            out.append(s)
    return out


# ------------------------------------------------------------------ standalone histories (replay / shrinking)
# ["parse", parser, string, label] | ["edit", label, path, kind, index|None, src|None] | ["peek", label]
# src = ["tok", type, value] | ["tree", json tree] | ["sub", label, path]
def _nav(t, path):
    for i in path:
        t = t.children[i]
    return t


def execute(im, hist):
    """run a standalone history on the implementation; invalid edits are skipped (shrinking removes their targets).
    returns [{'op': k, 'parser', 'string', 'observed', 'expected', 'ok'}] for every parse call"""
    from lark import Token, Tree

    im.clear()
    handles, report = {}, []
    for k, op in enumerate(hist):
        try:
            if op[0] == "clear":
                im.clear()
                continue
            if op[0] == "parse":
                _, p, s, label = op
                t, obs = im.call(p, s)
                if t is not None:
                    handles[label] = t
                exp = im.uncached(p, s)
                report.append({"op": k, "parser": p, "string": s, "observed": obs, "expected": exp, "ok": obs == exp})
            elif op[0] == "edit":
                _, label, path, kind, idx, src = op
                node = _nav(handles[label], path)
                if not isinstance(node, Tree):
                    continue
                if src is None:
                    val = None
                elif src[0] == "tok":
                    val = Token(src[1], src[2])
                elif src[0] == "tree":
                    val = unser(from_json(src[1]))
                else:
                    val = _nav(handles[src[1]], src[2])
                    if isinstance(val, Tree) and id(node.children) in mutable_ids(val, set()):
                        continue  # would create a cycle
                if kind == "replace":
                    node.children[idx] = val
                elif kind == "remove":
                    del node.children[idx]
                else:
                    node.children.append(val)
        except (KeyError, IndexError, AttributeError, TooBig, RecursionError):
            continue
    return report


def first_failure(report):
    for r in report:
        if not r["ok"]:
            return r
    return None


def shrink(im, hist, deadline):
    """ddmin-style: drop chunks of operations while some parse still returns something else than the uncached parser"""
    rep = first_failure(execute(im, hist))
    if rep is None:
        return hist
    hist = hist[: rep["op"] + 1]
    chunk = max(1, len(hist) // 2)
    while chunk >= 1 and time.time() < deadline:
        i, changed = 0, False
        while i < len(hist) - 1 and time.time() < deadline:
            cand = hist[:i] + hist[i + chunk:]
            if not cand or cand[-1][0] != "parse":
                i += chunk
                continue
            r = first_failure(execute(im, cand))
            if r is not None:
                hist, changed = cand[: r["op"] + 1], True
            else:
                i += chunk
        if chunk == 1 and not changed:
            break
        chunk = max(1, chunk // 2) if not (chunk == 1 and changed) else 1
    return hist


def concat_histories(hists):
    """all operations since the start of the process as ONE history (labels shifted): needed when state outside the lru caches survives
    between the random histories, so that a failure depends on earlier histories"""
    out, off = [], 0
    for h in hists:
        if out:
            out.append(["clear"])   # the harness empties both caches between two histories (what parsing > maxsize other strings does to them)
            off = len(out)
        for op in h:
            if op[0] == "parse":
                out.append(["parse", op[1], op[2], op[3] + off])
            elif op[0] == "edit":
                src = op[5]
                if src is not None and src[0] == "sub":
                    src = ["sub", src[1] + off, src[2]]
                out.append(["edit", op[1] + off, op[2], op[3], op[4], src])
            else:
                out.append([op[0], op[1] + off] + list(op[2:]))
        off = len(out)
    return out


def reproduces_in_fresh_process(hist):
    """does the history violate the property when it is replayed in a new interpreter (nothing left over from this run)?"""
    import subprocess
    import sys

    path = CANONICAL_REPLAY
    os.makedirs(os.path.dirname(path), exist_ok=True)
    with open(path, "w", encoding="utf-8") as f:
        json.dump({"input": {"history": hist}}, f, ensure_ascii=False)
    try:
        r = subprocess.run([sys.executable, os.path.join(runner.ROOT, "check"), "C11", "--replay", path], capture_output=True, text=True, timeout=600, check=False)
    except subprocess.TimeoutExpired:
        return False
    return r.returncode == 1 and "property violated" in r.stdout


def shrink_fresh(hist, budget=30):
    """coarse ddmin whose test is a replay in a fresh interpreter (each test costs a process start, hence the small budget)"""
    chunk = max(1, len(hist) // 2)
    while chunk >= 1 and budget > 0:
        i, changed = 0, False
        while i < len(hist) - 1 and budget > 0:
            cand = hist[:i] + hist[i + chunk:]
            if not cand or cand[-1][0] != "parse":
                i += chunk
                continue
            budget -= 1
            if reproduces_in_fresh_process(cand):
                hist, changed = cand, True
            else:
                i += chunk
        if chunk == 1 and not changed:
            break
        chunk = max(1, chunk // 2) if not (chunk == 1 and changed) else 1
    return hist


def show(c, limit=400):
    def go(x):
        return f"{x[1]}:{x[2]!r}" if x[0] == "K" else f"{x[1]}(" + ", ".join(go(k) for k in x[2]) + ")"

    if c[0] == "exn":
        return "raises " + c[1]
    s = go(c[1])
    return s if len(s) <= limit else s[:limit] + "..."


# ------------------------------------------------------------------ one random history, executed while it is generated
class HistoryRun:
    def __init__(self, ctx, im, pools, tables, pr, n_ops, main, evalsample, profile):
        self.ctx, self.im, self.pools, self.tables, self.pr = ctx, im, pools, tables, pr
        self.rng, self.n_ops, self.main, self.evalsample = ctx.rng, n_ops, main, evalsample
        self.p_parse, self.p_main, self.p_fresh = profile  # share of parse calls / of the main parser / of fresh strings
        self.handles = []  # (tree, parser, sid, label)
        self.gops, self.gobs, self.jhist = [], [], []
        self.used = {p: [] for p in PARSERS}
        self.fresh_ptr = {p: 0 for p in PARSERS}
        self.order = {p: list(range(len(pools[p]))) for p in PARSERS}
        self.index = {p: {x: i for i, x in enumerate(pools[p])} for p in PARSERS}
        self.last = None  # (parser, string) of the most recent parse call
        for p in PARSERS:
            self.rng.shuffle(self.order[p])
        self.edited = set()  # (parser, sid) whose returned trees were edited through a handle of that string
        self.stats = {"parse": 0, "hit": 0, "miss": 0, "raised": 0, "edit": 0, "replace": 0, "remove": 0, "append": 0, "moved": 0,
                      "peek": 0, "hit_after_edit": 0, "max_depth": 0, "junk_tok": 0, "junk_tree": 0, "sub": 0}
        self.raised_by = {p: 0 for p in PARSERS}
        self.failures = []  # (op index, parser, string, observed, expected, how)
        self.stop = False

    # --- parse
    def choose_string(self, p):
        r, used = self.rng.random(), self.used[p]
        if self.last is not None and self.last[0] != p and self.last[1] in self.index[p] and self.rng.random() < 0.5:
            sid = self.index[p][self.last[1]]   # the string the OTHER parser was given in the call before
            if sid not in used:
                used.append(sid)
            self.stats["same_string_other_parser"] = self.stats.get("same_string_other_parser", 0) + 1
            return sid
        if (r < self.p_fresh or not used) and self.fresh_ptr[p] < len(self.order[p]):
            sid = self.order[p][self.fresh_ptr[p]]
            self.fresh_ptr[p] += 1
            used.append(sid)
            return sid
        if r < self.p_fresh + 0.27 and used:
            return used[-self.rng.randint(1, min(len(used), 12))]  # recent: a hit
        return self.rng.choice(used)  # anything seen before: hit, or miss after eviction

    def do_parse(self):
        p = self.main if self.rng.random() < self.p_main else [q for q in PARSERS if q != self.main][0]
        sid = self.choose_string(p)
        s = self.pools[p][sid]
        self.last = (p, s)
        info0 = self.im.cached[p].cache_info()
        try:
            t, obs = self.im.call(p, s)
        except (TooBig, RecursionError):
            self.stop = True  # only with a poisoned cache: the history ends before this call
            return
        info1 = self.im.cached[p].cache_info()
        hit = info1.hits > info0.hits
        self.stats["parse"] += 1
        self.stats["hit" if hit else "miss"] += 1
        label = len(self.jhist)
        self.jhist.append(["parse", p, s, label])
        self.gops.append(f"Parse {GPARSER[p]} {sid}%N")
        exp = self.tables[p][sid]
        if obs[0] == "exn":
            self.stats["raised"] += 1
            self.raised_by[p] += 1
            self.gobs.append(f"OParse (Exn {obs[1]})")
        else:
            self.gobs.append(f"OParse (Ok {f'{p}_{sid}' if obs == exp else self.pr.tree(obs[1])})")
            self.handles.append((t, p, sid, label))
            if hit and (p, sid) in self.edited:
                self.stats["hit_after_edit"] += 1
        if obs != exp:
            self.failures.append((label, p, s, obs, exp, "oracle: the returned tree differs from the uncached _parser.parse(s)"))
        elif p == "cond" and t is not None and self.rng.random() < self.evalsample:
            self.eval_oracle(label, s, t)

    def eval_oracle(self, label, s, t):
        from vlib import evalimpl

        self.ctx.notes["evaluations_compared"] = self.ctx.notes.get("evaluations_compared", 0) + 1
        got = evalimpl.outcome(lambda: evalimpl.rc_evaluation(copy.deepcopy(t)))
        want = evalimpl.outcome(lambda: evalimpl.rc_evaluation(self.im.lark["cond"].parse(s)))
        if got != want:
            self.failures.append((label, "cond", s, ("exn", f"evaluation: {got}"), ("exn", f"evaluation: {want}"),
                                  "oracle: requirement_constraint_evaluation of the returned tree differs from the fresh parse"))

    # --- edits
    def pick_handle(self):
        if self.rng.random() < 0.6:
            return self.rng.randint(max(0, len(self.handles) - 6), len(self.handles) - 1)
        return self.rng.randrange(len(self.handles))

    def pick_node(self, root):
        from lark import Tree

        node, path = root, []
        while len(path) < 25:
            kids = [i for i, k in enumerate(node.children) if isinstance(k, Tree)]
            if not kids or self.rng.random() < 0.4:
                break
            i = self.rng.choice(kids)
            path.append(i)
            node = node.children[i]
        return node, path

    def junk_tree(self, depth=0):
        n = self.rng.randint(0, 2)
        kids = []
        for _ in range(n):
            if depth < 2 and self.rng.random() < 0.4:
                kids.append(self.junk_tree(depth + 1))
            else:
                kids.append(("K", self.rng.choice(["CONDITION_KEY", "JUNK", "PACKAGE_KEY"]), str(self.rng.randint(1, 999))))
        return ("T", self.rng.choice(["condition", "junk", "and_composition", "or_composition", "package"]), tuple(kids))

    def make_source(self, target):
        """(python value, gallina source, json source, (handle index, path) or None)"""
        from lark import Token, Tree

        r = self.rng.random()
        if r >= 0.6:  # an object reachable from one of the caller's handles (aliasing; "moving" a subtree)
            h2 = self.pick_handle()
            node2, path2 = self.pick_node(self.handles[h2][0])
            if node2.children and self.rng.random() < 0.7:
                i = self.rng.randrange(len(node2.children))
                node2, path2 = node2.children[i], path2 + [i]
            cyclic = isinstance(node2, Tree) and id(target.children) in mutable_ids(node2, set())
            if isinstance(node2, (Tree, Token)) and unfolded_size(node2, 60) <= 60 and not cyclic:
                self.stats["sub"] += 1
                return node2, f"(SSub {h2}%N {nat_list(path2)})", ["sub", self.handles[h2][3], path2], (h2, path2)
        if r < 0.35 or r >= 0.6:
            ty, v = self.rng.choice(["CONDITION_KEY", "JUNK", "MODAL_MARK"]), self.rng.choice(["1", "77", "Muss", "x y", ""])
            self.stats["junk_tok"] += 1
            return Token(ty, v), f"(SJunkTok {self.pr.lbl(ty)} {self.pr.lbl(v)})", ["tok", ty, v], None
        c = self.junk_tree()
        self.stats["junk_tree"] += 1
        return unser(c), f"(SJunkTree {self.pr.tree(c)})", ["tree", to_json(c)], None

    def emit_edit(self, h, path, kind, idx, gsrc, jsrc):
        self.stats["edit"] += 1
        self.stats[kind] += 1
        self.stats["max_depth"] = max(self.stats["max_depth"], len(path))
        ged = {"replace": f"EReplace {idx} {gsrc}", "remove": f"ERemove {idx}", "append": f"EAppend {gsrc}"}[kind]
        self.gops.append(f"Edit {h}%N {nat_list(path)} ({ged})")
        self.jhist.append(["edit", self.handles[h][3], list(path), kind, idx, jsrc])
        self.edited.add((self.handles[h][1], self.handles[h][2]))

    def do_edit(self):
        h = self.pick_handle()
        if unfolded_size(self.handles[h][0], 400) > 400:
            return
        node, path = self.pick_node(self.handles[h][0])
        kinds = ["append"] + (["replace", "replace", "remove"] if node.children else [])
        kind = self.rng.choice(kinds)
        if kind == "remove":
            idx = self.rng.randrange(len(node.children))
            del node.children[idx]
            self.emit_edit(h, path, kind, idx, None, None)
            return
        val, gsrc, jsrc, origin = self.make_source(node)
        if kind == "replace":
            idx = self.rng.randrange(len(node.children))
            node.children[idx] = val
        else:
            idx = None
            node.children.append(val)
        self.emit_edit(h, path, kind, idx, gsrc, jsrc)
        # "move": also take the subtree out of the place it came from
        if origin is not None and origin[1] and self.rng.random() < 0.5:
            h2, path2 = origin
            try:
                parent = _nav(self.handles[h2][0], path2[:-1])
                if parent.children[path2[-1]] is val and parent.children is not node.children:
                    del parent.children[path2[-1]]
                    self.emit_edit(h2, path2[:-1], "remove", path2[-1], None, None)
                    self.stats["moved"] += 1
            except (IndexError, AttributeError):
                pass

    def do_peek(self):
        h = self.pick_handle()
        try:
            c = ser(self.handles[h][0])
        except (TooBig, RecursionError):
            return
        self.stats["peek"] += 1
        self.gops.append(f"Peek {h}%N")
        self.jhist.append(["peek", self.handles[h][3]])
        self.gobs.append(f"OPeek (Ok {self.pr.tree(c)})")

    def run(self):
        self.im.clear()
        while len(self.gops) < self.n_ops and not self.stop:
            r = self.rng.random()
            if r < self.p_parse or not self.handles:
                self.do_parse()
            elif r < self.p_parse + 0.8 * (1 - self.p_parse):
                self.do_edit()
            else:
                self.do_peek()
        for p in PARSERS:
            info = self.im.cached[p].cache_info()
            self.stats[f"evictions_{p}"] = max(0, info.misses - self.raised_by[p] - info.currsize)
        return f"([{'; '.join(self.gops)}], [{'; '.join(self.gobs)}])"


# ------------------------------------------------------------------ tie T validation
def behaviour(im):
    """what the loaded functions do, observed from outside"""
    out = {"order_ok": im.order_ok}
    modes, sizes, raises = set(), set(), set()
    for p, s, bad in (("cond", "[1]U([2]O[3])", "[1]U"), ("ahb", "Muss [1]U[2] Soll [3]", "Foo [1]")):
        im.clear()
        cached = im.cached[p]
        sizes.add(cached.cache_parameters()["maxsize"])
        t = im.fn[p](s)
        c = cached(s)  # a hit: the cached object itself (when tree_copy is the outer wrapper)
        if not im.order_ok:
            c = im.fn[p](s)
        if t is c:
            modes.add("NoCopy")
        elif t.children is c.children:
            modes.add("CopyShallow")
        elif not (mutable_ids(t, set()) & mutable_ids(c, set())) and ser(t) == ser(c):
            modes.add("CopyDeep")
        else:
            modes.add("Other")
        # exceptions are not cached
        i0 = cached.cache_info()
        r = []
        for _ in range(2):
            try:
                im.fn[p](bad)
                r.append(False)
            except SyntaxError:
                r.append(True)
        i1 = cached.cache_info()
        raises.add(all(r))
        out[f"exceptions_not_cached_{p}"] = (not all(r)) or (i1.currsize == i0.currsize and i1.misses == i0.misses + 2)
    out["mode"] = modes.pop() if len(modes) == 1 else "Mixed"
    out["maxsize"] = sizes.pop() if len(sizes) == 1 else None
    out["can_raise"] = raises.pop() if len(raises) == 1 else None
    return out


def validate_translation(ctx, im):
    beh = behaviour(im)
    ctx.notes["behaviour"] = beh
    if ctx.notes.get("gen_status", {}).get("Gen_cache") != "ok":
        return beh
    res, out = runner.eval_terms("C11", "From Ahb Require Import Model.Prelude Gen.Gen_cache.",
                                 ["tree_copy_mode", "cache_maxsize", "wrapper_order_ok", "cached_fn_can_raise"], tag="gen_consts")
    if res is None or len(res) != 4:
        ctx.broke("translator validation for Gen_cache could not be evaluated", out or "")
        return beh
    gen = {"mode": res[0], "maxsize": int(res[1].replace("%nat", "")), "order_ok": res[2] == "true", "can_raise": res[3] == "true"}
    ctx.notes["gen_cache"] = gen
    n_ok = 0
    for k in ("mode", "maxsize", "order_ok", "can_raise"):
        if gen[k] != beh[k]:
            ctx.broke(f"translator validation mismatch (Gen_cache.{k} vs behaviour of the loaded functions)", f"generated {gen[k]!r}, observed {beh[k]!r}")
        else:
            n_ok += 1
    for p in PARSERS:
        if not beh[f"exceptions_not_cached_{p}"]:
            ctx.broke("modelled library behaviour differs: lru_cache stored a raised call", p)
    ctx.notes["translator_validation"] = {"constants": 4, "agree": n_ok}
    return beh


# ------------------------------------------------------------------ the check
def fixed_witnesses(ctx, im):
    """the three-step witness of C11_refuted_when_shallow on the implementation, plus variants at depth"""
    hists = []
    for p, s in (("cond", "[1]U([2]O[3])"), ("ahb", "Muss [1]U[2] Soll [3]")):
        hists.append((f"witness|{p}|append-root", [["parse", p, s, 0], ["edit", 0, [], "append", None, ["tok", "JUNK", "J"]], ["parse", p, s, 2]]))
        hists.append((f"witness|{p}|remove-depth1", [["parse", p, s, 0], ["edit", 0, [1], "remove", 0, None], ["parse", p, s, 2]]))
        hists.append((f"witness|{p}|replace-depth1", [["parse", p, s, 0], ["edit", 0, [0], "replace", 0, ["tree", ["T", "junk", []]]], ["parse", p, s, 2]]))
    # the same string to both parsers in consecutive calls (each parser must answer for its own grammar)
    for s1 in ("[1]U[2]", "Muss [1]", "U"):
        for a, b in (("cond", "ahb"), ("ahb", "cond")):
            hists.append((f"witness|{a}-then-{b}|{s1}", [["parse", a, s1, 0], ["parse", b, s1, 1], ["parse", a, s1, 2]]))
    # a malformed string first, then well-formed ones that a normalisation of the text (case folding, white space) would identify with it
    for p, bad, goods in (("ahb", "Muß [1]", ("Muss [1]", "MUSS [1]", "muss [1]")), ("ahb", "MUẞ[2]U[3]", ("MUSS[2]U[3]", "muss[2]u[3]")), ("ahb", "Muss [1] ?", ("Muss [1]", "Muss [1] ")),
                          ("cond", "[1]U [2", ("[1]U [2]", "[1]u [2]")), ("ahb", "ſoll [7]", ("Soll [7]", "soll [7]", "SOLL [7]"))):
        hists.append((f"witness|{p}|after-malformed|{bad}", [["parse", p, bad, 0]] + [["parse", p, g, i + 1] for i, g in enumerate(goods)]))
    n, failing, reported = 0, [], set()
    for key, h in hists:
        rep = execute(im, h)
        n += 1
        bad = first_failure(rep)
        if bad is not None:
            failing.append(key)
            cat = (h[0][1], "then" in key.split("|")[1], "after-malformed" in key)
            if cat not in reported:  # one replay per parser and kind; the others are listed in the evidence
                reported.add(cat)
                ctx.fail(key, {"history": h}, show(bad["expected"]), show(bad["observed"]),
                         "fixed history: the same string given to both parsers in consecutive calls" if cat[1] else
                         "fixed history: a malformed string, then well-formed strings that only differ from it in case / folding / white space" if cat[2] else
                         "fixed witness of C11_refuted_when_shallow: parse; edit the returned tree; parse the same string again")
    ctx.notes["fixed_witnesses_failing"] = failing
    return n


def run(ctx):
    built = prepare(ctx, ["Gen_cache"], ["Props/C11.vo", "Corr/Heap.vo"])
    im = Impl()
    from vlib import evalimpl

    beh = validate_translation(ctx, im)
    rng = ctx.rng
    n_hist, n_ops = (200, 50) if ctx.quick else (100, 3000)
    n_long = 2 if ctx.quick else 0  # quick tier: two long histories on the (fast) AHB parser so that evictions occur as well
    sizes = {"cond": 700, "ahb": 1500} if ctx.quick else {"cond": 1600, "ahb": 1600}
    profile = (0.70, 0.88, 0.58) if ctx.quick else (0.75, 0.93, 0.66)
    pools = {"cond": cond_strings(rng, sizes["cond"]), "ahb": ahb_strings(rng, sizes["ahb"])}
    # both parsers also get strings of the other one's language (the same string may go to both parsers, in any order)
    cross = {"cond": rng.sample(pools["ahb"], len(pools["ahb"]) // 12), "ahb": rng.sample(pools["cond"], len(pools["cond"]) // 12)}
    for p in PARSERS:
        pools[p] = pools[p] + [x for x in cross[p] if x not in set(pools[p])]
    t0 = time.time()
    tables = {p: [im.uncached(p, s) for s in pools[p]] for p in PARSERS}
    # A-lark-pure on a sample: the raw parser returns the same tree when asked again
    impure = [(p, pools[p][i]) for p in PARSERS for i in rng.sample(range(len(pools[p])), 60) if im.uncached(p, pools[p][i]) != tables[p][i]]
    if impure:
        ctx.broke("assumption A-lark-pure does not hold: _parser.parse(s) returned different trees for the same string", str(impure[:3]))
    ctx.notes["uncached_table_s"] = round(time.time() - t0, 1)
    evalimpl.set_cer(rc={str(k): rng.choice(["FULFILLED", "UNFULFILLED", "UNKNOWN"]) for k in range(1, 61)},
                     hints={str(k): f"hint {k}" for k in range(501, 521)},
                     fc={str(k): (rng.random() < 0.5, None) for k in range(901, 921)})
    n_wit = fixed_witnesses(ctx, im)
    pr = Printer()
    table_defs = []
    for p in PARSERS:
        rows = []
        for i, e in enumerate(tables[p]):
            if e[0] == "ok":
                table_defs.append(f"Definition {p}_{i} : atree := {pr.tree(e[1])}.")
                rows.append(f"({i}%N, Ok {p}_{i})")
            else:
                rows.append(f"({i}%N, Exn {e[1]})")
        table_defs.append(f"Definition table_{p} : table := [" + "; ".join(rows) + "].")
    terms, runs, total = [], [], {}
    n_fail_reported, t_shrink = 0, 0.0
    n_fail_examined, unreproduced, failing = 0, None, []
    for k in range(n_hist + n_long):
        main = "cond" if (k % 10) < (5 if ctx.quick else 3) and k < n_hist else "ahb"
        if k < n_hist:
            hr = HistoryRun(ctx, im, pools, tables, pr, n_ops, main, 0.12 if ctx.quick else 0.01, profile)
        else:
            hr = HistoryRun(ctx, im, pools, tables, pr, 2600, main, 0.0, (0.75, 0.97, 0.70))
        terms.append(hr.run())
        runs.append(hr)
        for a, b in hr.stats.items():
            total[a] = max(total.get(a, 0), b) if a == "max_depth" else total.get(a, 0) + b
        if hr.failures:
            failing.append((k, hr))
    # failures are examined after all histories ran: the long histories first (they reach evictions without any help from the harness)
    failing.sort(key=lambda x: (0 if x[0] >= n_hist else 1, x[0]))
    for k, hr in failing:
        if not (n_fail_reported < 2 and n_fail_examined < 8):
            break
        if True:
            n_fail_examined += 1
            label, p, s, obs, exp, how = hr.failures[0]
            ts = time.time()
            small = shrink(im, hr.jhist[: label + 1], time.time() + (8 if ctx.quick else 20))
            t_shrink += time.time() - ts
            rep = first_failure(execute(im, small))
            if rep is None:  # (evaluation-only failure: keep the unshrunk prefix)
                small, rep = hr.jhist[: label + 1], {"expected": exp, "observed": obs}
            # the replay must stand on its own: confirm it in a fresh interpreter, else fall back to longer histories
            note, reproduced = f"shrunk from {label + 1} to {len(small)} operations", True
            if not reproduces_in_fresh_process(small):
                full = hr.jhist[: label + 1]
                everything = concat_histories([r.jhist for r in runs[:k]] + [full])
                if reproduces_in_fresh_process(full):
                    small = shrink_fresh(full)
                    note = f"the in-process shrinking does not reproduce in a fresh process (state outside the caches survives a cache clear); shrunk from {label + 1} to {len(small)} with a fresh interpreter per test"
                elif reproduces_in_fresh_process(everything):
                    small = shrink_fresh(everything)
                    note = (f"the failure depends on earlier histories (state outside the caches survives): all {len(everything)} operations since the start of the run, "
                            f"shrunk to {len(small)} with a fresh interpreter per test")
                else:
                    reproduced = False
                    note += "; NOT reproduced in a fresh process (depends on state this run left behind, e.g. the cache clears between the histories)"
            key = "history|" + hashlib.sha1(json.dumps(small, ensure_ascii=False).encode()).hexdigest()[:12]
            entry = (key, {"history": small, "found_in_history": k, "length_before_shrinking": label + 1},
                     show(rep["expected"]), show(rep["observed"]), how + f" (random history {k}, {note})")
            if reproduced:
                n_fail_reported += 1
                ctx.fail(*entry)
            elif unreproduced is None:
                unreproduced = entry   # reported only if no failure that stands on its own turns up
    if n_fail_reported == 0 and unreproduced is not None:
        ctx.fail(*unreproduced)
    # the EMPTY history: a string parsed as the very first thing a process does gets the same tree as under any other history. Each of these short
    # histories is executed in a new interpreter (nothing was parsed there before); in it every parse is compared with the raw parser as usual.
    if True:
        firsts = [[["parse", "ahb", "Muss [1] ∧ ([2] ∨ [3]) Soll [4] ⊻ [5]", 1], ["parse", "ahb", "Muss [1] ∧ ([2] ∨ [3]) Soll [4] ⊻ [5]", 2]],
                  [["parse", "cond", "[1] ∧ ([2] ∨ [3]) ⊻ [4]", 1], ["parse", "ahb", "X [1] ∨ [2]", 2], ["parse", "cond", "[1] ∧ ([2] ∨ [3]) ⊻ [4]", 3]],
                  [["parse", "ahb", "muss[1]u[2] kann[3]o[4]", 1], ["parse", "ahb", "M [5] ⊻ [6]", 2], ["parse", "cond", "[1]u[2]", 3]],
                  [["parse", "ahb", rng.choice(pools["ahb"]), 1], ["parse", "cond", rng.choice(pools["cond"]), 2], ["parse", "ahb", rng.choice(pools["ahb"]), 3]]]
        for h in firsts:
            if reproduces_in_fresh_process(h):
                key = "history|" + hashlib.sha1(json.dumps(h, ensure_ascii=False).encode()).hexdigest()[:12]
                ctx.fail(key, {"history": h, "found_in_history": "first parses of a new process", "length_before_shrinking": len(h)},
                         "the tree the raw parser returns for the string", "another tree (see ./check C11 --replay)",
                         "oracle: the returned tree differs from the uncached _parser.parse(s) (the first parses of a new interpreter: the empty history)")
    n_failing_hist = sum(1 for r in runs if r.failures)
    n_failing_parses = sum(len(r.failures) for r in runs)
    im.clear()
    # labels are needed before the trees that use them
    defs = "\n".join(pr.defs) + "\n" + "\n".join(table_defs)
    shard = 13 if ctx.quick else 7
    n, bad, err = runner.run_case_files("C11", IMPORTS, "heap_case", "heap_check (mk_pp table_cond table_ahb)", terms, shard=shard, defs=defs)
    if err:
        ctx.broke("correspondence (histories) could not be evaluated in Coq", err)
    for i in bad[:10]:
        r = runs[i]
        ctx.broke("correspondence mismatch: the heap model and ahbicht disagree on a history",
                  json.dumps({"history_index": i, "operations": len(r.jhist), "first_ops": r.jhist[:12]}, ensure_ascii=False))
    # the correspondence must be able to tell the modes apart: the same cases under the other reading of tree_copy
    other = "CopyShallow" if beh.get("mode") == "CopyDeep" else "CopyDeep"
    sub = terms[: 26 if ctx.quick else 7]
    n2, bad2, err2 = runner.run_case_files("C11_other", IMPORTS, "heap_case", f"heap_check_mode {other} (mk_pp table_cond table_ahb)", sub, shard=shard, defs=defs)
    ctx.notes["discrimination"] = {"mode_assumed": other, "cases": n2, "distinguished": len(bad2), "error": bool(err2)}
    if not err2 and n2 and not bad2 and total.get("hit_after_edit", 0) > 0:
        ctx.broke("the correspondence does not distinguish deep from shallow copies (no case separates the two models)", str(ctx.notes["discrimination"]))
    ctx.notes["correspondence"] = {"histories": n, "mismatches": len(bad), "operations": sum(len(r.gops) for r in runs)}
    ctx.notes["history_stats"] = total
    ctx.notes["histories_with_evictions"] = sum(1 for r in runs if r.stats.get("evictions_cond", 0) + r.stats.get("evictions_ahb", 0) > 0)
    ctx.notes["oracle"] = {"parses_checked": total.get("parse", 0), "failing_parses": n_failing_parses, "failing_histories": n_failing_hist,
                           "fixed_witnesses": n_wit, "shrink_s": round(t_shrink, 1)}
    ctx.add_eval(n + n_wit)
    ctx.coverage["distinct_nontrivial"] = len({t for t, r in zip(terms, runs) if r.stats["hit_after_edit"] > 0})
    ctx.coverage["rule"] = (f"{n_hist} random histories x {n_ops} operations" + (f" + {n_long} x 2600 operations on the AHB parser (evictions)" if n_long else "") +
                            f" ({profile[0]:.0%} parse: {profile[1]:.0%} on the history's main parser, {profile[2]:.0%} a fresh string / 27% one of the "
                            "12 most recent / the rest any earlier one; edits (80% of the other operations) at random depth: replace / remove / append with a new Token, a new Tree or an object "
                            "reachable from any handle, half of those also removed from their origin = moved; read-backs of old handles), caches cleared before "
                            "each history; model = run_src with the generated constants and pure_parse = table of uncached _parser.parse results; "
                            "non-trivial = distinct histories in which a string is served from the cache after a tree returned for it was edited")
    ctx.coverage["input_distribution"] = {"strings": {p: len(pools[p]) for p in PARSERS},
                                          "rejected_strings": {p: sum(1 for e in tables[p] if e[0] == "exn") for p in PARSERS}, **total}
    if runs:
        ctx.sample({"history": runs[0].jhist[:8], "operations": len(runs[0].jhist)})
    ctx.trusted += ["modelled, tied by the correspondence: functools.lru_cache (LRU order, eviction at maxsize, exceptions not stored), "
                    "lark Tree.copy / Tree.__deepcopy__ / Token.__deepcopy__, Python list aliasing (Model/Heap.v)",
                    "not in the model: rebinding attributes of Tree objects (t.children = ..., t.data = ...), threads racing on the cache"]
    if not ctx.quick and built and os.environ.get("VERIF_NO_COQCHK") != "1":
        rc, out = runner.sh("timeout 800 coqchk -silent -o -Q . Ahb Ahb.Props.C11", cwd=runner.COQ, timeout=900)
        ctx.notes["coqchk"] = {"rc": rc, "tail": out[-600:]}
        if rc != 0:
            ctx.broke("coqchk rejects Props/C11.vo", out[-1500:])
    return finish(ctx, assumptions=["A-lark-pure: the uncached Lark parser is a function of the string (pure_parse is universally quantified in the theorems; "
                                    "checked on a sample of the pool in every run)",
                                    "callers edit trees through list operations on children lists (replace / remove / append at any depth); "
                                    "Tree objects themselves are not rebound"])


CANONICAL_REPLAY = os.path.join(runner.WORK, "C11", "candidate_replay.json")


def replay(path):
    r = json.load(open(path, encoding="utf-8"))
    if os.path.abspath(path) != CANONICAL_REPLAY:
        # A failure may depend on object identity (an address handed out again after a cache entry died). Whether that happens depends on every
        # allocation of the process, also on those of reading this file. So the history alone is written to the one file the shrinking tests used as
        # well, and executed in a new interpreter started exactly the way those tests were started.
        import subprocess
        import sys

        if "history" not in (r.get("input") or {}):
            print("this replay file names the obligation that no longer checks; there is no failing history to replay")
            return 0
        os.makedirs(os.path.dirname(CANONICAL_REPLAY), exist_ok=True)
        with open(CANONICAL_REPLAY, "w", encoding="utf-8") as f:
            json.dump({"input": {"history": r["input"]["history"]}}, f, ensure_ascii=False)
        p = subprocess.run([sys.executable, os.path.join(runner.ROOT, "check"), "C11", "--replay", CANONICAL_REPLAY], capture_output=True, text=True, timeout=900, check=False)
        print(p.stdout, end="")
        print("recorded expected:", r.get("expected"))
        print("recorded observed:", r.get("observed"))
        return 1 if (p.returncode == 1 and "property violated" in p.stdout) else 0
    im = Impl()
    hist = r["input"]["history"]
    rep = execute(im, hist)
    for op in hist:
        print("  ", json.dumps(op, ensure_ascii=False))
    bad = 0
    for x in rep:
        status = "ok" if x["ok"] else "DIFFERS"
        print(f"parse #{x['op']} {x['parser']} {x['string']!r}: {status}")
        if not x["ok"]:
            bad += 1
            print("   expected (uncached):", show(x["expected"]))
            print("   observed (cached)  :", show(x["observed"]))
    print("recorded expected:", r.get("expected"))
    print("recorded observed:", r.get("observed"))
    print("now:", "property violated" if bad else "no difference")
    return 1 if bad else 0
