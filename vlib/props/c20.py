"""
C20 -- date-time format constraints 931..935 judge the instant.

Tie T: coq/Gen/Gen_tz.v (pytz table) validated against berlin.fromutc on a grid of instants.
Tie C: Model/Time.v (fromisoformat + astimezone + pytz lookup + german_strom_and_gas_tag.py) against
       FcEvaluator().evaluate_931..935 on rendered instants (switch days, year borders) and a malformed stream.
Oracle (implementation only): an independent pure-integer EU-rule computation.
"""
import json

from vlib import runner
from vlib.runner import finish, gtext, prepare

KEYS = ("931", "932", "933", "934", "935")
IMPORTS = "From Ahb Require Import Model.Prelude Gen.Gen_tz Model.Time Corr.Time."
FIRST_YEAR, LAST_YEAR = 1996, 2037

# ---------------------------------------------------------------------------------------------------------------
# independent pure-integer calendar and EU rule (ordinal arithmetic; the Coq model uses the era-based algorithm)
_CUM = (0, 31, 59, 90, 120, 151, 181, 212, 243, 273, 304, 334)


def is_leap(y):
    return y % 4 == 0 and (y % 100 != 0 or y % 400 == 0)


def days_of(y, m, d):
    """days from 1970-01-01 to y-m-d (proleptic Gregorian, y >= 1)"""
    y1 = y - 1
    return y1 * 365 + y1 // 4 - y1 // 100 + y1 // 400 - 719162 + _CUM[m - 1] + (1 if m > 2 and is_leap(y) else 0) + d - 1


def weekday(days):
    """Monday = 0 .. Sunday = 6"""
    return (days + 3) % 7


def last_sunday(y, m):
    d = days_of(y, m, 31)
    while weekday(d) != 6:
        d -= 1
    return d


def civil_of(days):
    y = 1970 + days // 366
    while days_of(y + 1, 1, 1) <= days:
        y += 1
    while days_of(y, 1, 1) > days:
        y -= 1
    m = 12
    while days_of(y, m, 1) > days:
        m -= 1
    return y, m, days - days_of(y, m, 1) + 1


def eu_offset(t):
    """CET/CEST by the EU rule for the UTC second t"""
    y, _, _ = civil_of(t // 86400)
    return 7200 if last_sunday(y, 3) * 86400 + 3600 <= t < last_sunday(y, 10) * 86400 + 3600 else 3600


def expected_for_instant(t, off):
    """the verdicts the property demands for the instant t written with offset off (seconds)"""
    tod = (t + eu_offset(t)) % 86400
    return {"931": off == 0, "932": tod == 0, "933": tod == 0, "934": tod == 21600, "935": tod == 21600}


# ---------------------------------------------------------------------------------------------------------------
# writing an instant
OFFSETS = (("Z", 0), ("+00:00", 0), ("+01:00", 3600), ("-01:00", -3600), ("+02:00", 7200), ("+05:30", 19800), ("-08:00", -28800),
           ("+14:00", 50400), ("-12:00", -43200), ("+23:59", 86340), ("-23:59", -86340), ("+01:00:30", 3630))
SHAPES = (("T", "sec"), (" ", "sec"), ("T", "min"), (" ", "frac6"), ("T", "frac3"), (" ", "min"), ("T", "frac1"))


def render(t, off_text, off, shape):
    sep, kind = shape
    loc = t + off
    y, m, d = civil_of(loc // 86400)
    tod = loc % 86400
    h, mi, s = tod // 3600, tod % 3600 // 60, tod % 60
    out = f"{y:04d}-{m:02d}-{d:02d}{sep}{h:02d}:{mi:02d}"
    if kind == "min" and s == 0:
        pass
    elif kind.startswith("frac"):
        out += f":{s:02d}." + "0" * int(kind[4:])
    else:
        out += f":{s:02d}"
    return out + off_text


def switch_instants(ctx):
    """(t, tag): for every year both switch days +-3 h (dense near the switch), the local-time limits around them,
    first and last day of the year"""
    near, near_step = (900, 60) if ctx.quick else (120, 1)
    out = []
    for y in range(FIRST_YEAR, LAST_YEAR + 1):
        for m in (3, 10):
            sw = last_sunday(y, m) * 86400 + 3600
            pts = set(range(sw - 3 * 3600, sw + 3 * 3600 + 1, 900 if ctx.quick else 300))
            pts |= set(range(sw - near, sw + near + 1, near_step))
            pts |= {sw - 1, sw + 1}
            day = last_sunday(y, m) * 86400
            for base in (day - 7200, day - 3600, day + 4 * 3600, day + 5 * 3600, day + 22 * 3600, day + 23 * 3600):
                pts |= {base - 1, base, base + 1}
            out += [(t, f"switch {y}-{m:02d}") for t in sorted(pts)]
        for (mm, dd) in ((1, 1), (12, 31)):
            day = days_of(y, mm, dd) * 86400
            pts = {day, day + 1, day + 12 * 3600, day + 86399}
            for base in (day - 7200, day - 3600, day + 4 * 3600, day + 5 * 3600, day + 22 * 3600, day + 23 * 3600):
                pts |= {base - 1, base, base + 1}
            lo, hi = days_of(FIRST_YEAR, 1, 1) * 86400, days_of(LAST_YEAR + 1, 1, 1) * 86400
            out += [(t, f"border {y}-{mm:02d}-{dd:02d}") for t in sorted(pts) if lo <= t < hi]
    return out


MALFORMED = [
    "", " ", "Z", "ZZ", "garbage", "heute", "2022-06-01", "2022-06-01T12:00:00", "2022-06-01 12:00", "2022-06-01T12:00:00.123456",
    "20220601T120000", "2022-06-01T", "2022-06-01T12", "2022-06-01T12:", "2022-06-01T12:0", "2022-06-01T12:00:0+00:00", "2022-06-0",
    "2022-06", "2022", "2022-06-01T24:00:00+00:00", "2022-06-01T24:00+01:00", "2022-13-01T00:00:00+00:00", "2022-00-10T00:00:00+00:00",
    "2022-06-31T00:00:00+00:00", "2022-02-29T00:00:00+01:00", "2024-02-29T23:00:00+00:00", "2022-06-01T12:60:00+00:00", "2022-06-01T12:00:60+00:00",
    "0001-01-01T00:00:00+05:00", "9999-12-31T23:59:59-05:00", "0001-01-01T00:00:00+00:00", "9999-12-31T23:59:59+00:00", "0001-01-01T00:00:00Z",
    "9999-12-31T23:00:00Z", "9999-12-31T22:00:00+00:00", "9999-12-31T23:59:59.999999-23:59", "0001-01-01T00:00:00+23:59", "0001-01-01T00:53:28+00:00",
    "0000-01-01T00:00:00+00:00", "10000-01-01T00:00:00+00:00", "0000-W01-1T00:00+00:00", "0001-W01-1T00:00+00:00", "9999-W52-7T00:00+00:00", "9999-W52-5T23:00:00+00:00",
    "2022-06-01t12:00:00z", "2022-06-01T12:00:00z", "2022-06-01T22:00:00Z ", " 2022-06-01T22:00:00Z", "2022-06-01T22:00:00 Z", "2022-06-01T22:00:00+00:00 ",
    "2022-06-01T22:00:00+00:00Z", "2022-06-01Z22:00:00Z", "2022-06-01T22:00:00ZZ", "2022-06-01T22:00:00+", "2022-06-01T22:00:00-", "2022-06-01T22:00:00+0",
    "2022-06-01T22:00:00+00", "2022-06-01T22:00:00+00:", "2022-06-01T22:00:00+00:0", "2022-06-01T22:00:00+0000", "2022-06-01T22:00:00+24:00", "2022-06-01T22:00:00-24:00",
    "2022-06-01T22:00:00+23:59:59.999999", "2022-06-01T22:00:00+00:00:00.5", "2022-06-01T22:00:00-00:00:00.5", "2022-06-01T22:00:00+00:99", "2022-06-01T22:00:00+99:00",
    "2022-06-01T22:00:00,5+00:00", "2022-06-01T22:00:00.1234567+00:00", "2022-06-01T22:00:00.+00:00", "2022-06-01T22:00:00:1+00:00", "2022-06-01T22:00x+00:00",
    "2022-06-01T22x+00:00", "2022-06-01T22:+00:00", "2022-06-01T22:00:00.1234567x+00:00", "2022-06-01T22\x00+00:00", "2022-06-01T22:00Z\x00abc", "2022-06-01T22:00:00\x00",
    "2022-06-01é22:00:00+00:00", "2022-06-01\U0001f60022:00:00+00:00", "2022-06-01\ud80022:00:00+00:00", "2022\ud800-06-01T22:00:00+00:00", "20220601\ud800220000+0000",
    "2022-W22-3T22:00:00+00:00", "2022W223T220000+0000", "2022-W22T22:00+00:00", "2022W22T2200Z", "2022-W53-1T00:00+00:00", "2020-W53-7T23:00:00+00:00", "2022-W00-1T00:00+00:00",
    "2022-W22-0T00:00+00:00", "2022-W22-8T00:00+00:00", "2022-152T22:00:00+00:00", "２０２２-06-01T22:00:00+00:00", "2022-06-01T２２:00:00+00:00", "2022-06-01T22:00:00+०१:00",
    "2022-06-01T22:00:00+01:00+01:00", "2022-06-01T22:00:00-01:00-01:00", "--------------------", "++++++++", "2022-06-01T-22:00:00+00:00", "-2022-06-01T22:00:00+00:00",
    "2022/06/01T22:00:00+00:00", "01.06.2022 22:00:00+00:00", "2022-06-01T22.00.00+00:00", "2022-6-1T22:00:00+00:00", "22-06-01T22:00:00+00:00", "2022-06-01T2:00:00+00:00",
    "2022-06-01T22:00:00+1:00", "2022-06-01T22:00:00 +01:00", "2022-06-01T22:00:00UTC", "2022-06-01T22:00:00 Europe/Berlin", "2022-06-01T22:00:00+01:00[Europe/Berlin]",
    "1900-01-01T00:00:00+01:00", "1893-03-31T23:06:32+00:00", "1945-05-24T00:00:00+02:00", "1947-05-11T01:00:00+00:00", "1980-04-06T00:00:00+01:00", "2038-03-28T00:00:00+01:00",
    "2500-07-01T00:00:00+02:00", "2500-07-01T00:00:00+01:00", "1995-12-31T23:00:00Z", "2038-01-01T00:00:00+01:00", "2022-06-01T12:00:00+00:00", "2022-03-27T00:00:00+01:00",
]

_ALPHABET = "0123456789" * 3 + "--++::..,TZWWzt \x00xé€\U0001f600\ud800"


#: datetimes that fulfil one of the constraints, with white space around them: such a string is not a datetime with offset (the library parser rejects it)
PADDED = [pre + d + post for d in ("2022-06-01T00:00:00+02:00", "2022-01-01T05:00:00Z", "2021-12-31T23:00:00+00:00", "2022-06-01T04:00:00Z", "2022-06-01T12:00:00+00:00")
          for pre, post in ((" ", ""), ("", " "), ("", "\n"), ("\t", ""), ("", "\xa0"), (" ", " "), ("\r\n", ""),
                             # ... or any other character that is neither a digit nor Z behind them (C20_last_character_is_a_digit_or_Z)
                             ("", "z"), ("", "x"), ("", "+"), ("", "."), ("", ":"), ("", "\u00e9"), ("", "\u3000"), ("", "T"))]


def mutate(rng, s):
    s = list(s)
    for _ in range(rng.choice((1, 1, 1, 2, 2, 3))):
        k = rng.randrange(4)
        if k == 0 and s:
            del s[rng.randrange(len(s))]
        elif k == 1:
            s.insert(rng.randrange(len(s) + 1), rng.choice(_ALPHABET))
        elif k == 2 and s:
            s[rng.randrange(len(s))] = rng.choice(_ALPHABET)
        elif k == 3 and s:
            i = rng.randrange(len(s))
            s[i:i] = s[i:i + rng.randrange(1, 4)]
    return "".join(s)


def random_spelling(rng):
    """a string in the neighbourhood of everything fromisoformat accepts (valid and invalid field values)"""
    y = rng.choice((0, 1, 2, 1996, 1999, 2020, 2021, 2024, 2026, 2037, 9998, 9999))
    d = rng.choice([f"{y:04d}-{rng.randint(1, 12):02d}-{rng.randint(1, 31):02d}", f"{y:04d}{rng.randint(1, 12):02d}{rng.randint(1, 31):02d}",
                    f"{y:04d}-W{rng.randint(0, 54):02d}-{rng.randint(0, 8)}", f"{y:04d}W{rng.randint(1, 53):02d}{rng.randint(1, 7)}",
                    f"{y:04d}-W{rng.randint(1, 53):02d}", f"{y:04d}W{rng.randint(1, 53):02d}"])
    h, m, s = rng.choice((0, 4, 5, 6, 22, 23, 24, rng.randint(0, 23))), rng.choice((0, 0, 0, 59, 60, rng.randint(0, 59))), rng.choice((0, 0, 0, 59, 60, rng.randint(0, 59)))
    t = rng.choice([f"{h:02d}", f"{h:02d}:{m:02d}", f"{h:02d}{m:02d}", f"{h:02d}:{m:02d}:{s:02d}", f"{h:02d}{m:02d}{s:02d}",
                    f"{h:02d}:{m:02d}:{s:02d}.{rng.randrange(10 ** rng.randint(1, 8))}", f"{h:02d}{m:02d}{s:02d},{rng.randrange(1000):03d}"])
    oh, om, os_ = rng.choice((0, 1, 2, 23, 24, rng.randint(0, 25))), rng.choice((0, 0, 30, 59, 60)), rng.randint(0, 60)
    z = rng.choice(["", "Z", "Z", "+00:00", "-00:00", f"+{oh:02d}:{om:02d}", f"-{oh:02d}:{om:02d}", f"+{oh:02d}{om:02d}", f"-{oh:02d}", f"+{oh:02d}:{om:02d}:{os_:02d}",
                    f"-{oh:02d}:{om:02d}:{os_:02d}.{rng.randrange(10 ** 6)}", f"+00:00:00.{rng.randrange(1000)}"])
    return d + rng.choice("TTT  _é\ud800") + t + z


# ---------------------------------------------------------------------------------------------------------------
def _evaluator():
    from vlib import impl  # noqa: F401
    from ahbicht.content_evaluation.fc_evaluators import FcEvaluator

    class Ev(FcEvaluator):  # FcEvaluator is abstract only by convention; nothing to add
        pass

    return Ev()


def observe(ev, s):
    """{key: (fulfilled, has_message) | exception class name}"""
    out = {}
    for k in KEYS:
        try:
            r = getattr(ev, "evaluate_" + k)(s)
            out[k] = (bool(r.format_constraint_fulfilled), r.error_message is not None)
        except BaseException as e:  # pylint: disable=broad-except
            if isinstance(e, (KeyboardInterrupt, SystemExit, MemoryError)):
                raise
            out[k] = e
    return out


def gobs(o):
    from vlib import impl

    if isinstance(o, tuple):
        return f"Ok ({str(o[0]).lower()}, {str(o[1]).lower()})"
    return f"Exn {impl.exc_class(o)}"


def show(obs):
    return {k: (list(v) if isinstance(v, tuple) else f"raises {type(v).__name__}: {v}") for k, v in obs.items()}


def jstr(s):
    """the entered string as a JSON-safe input record (lone surrogates cannot be written as UTF-8)"""
    try:
        s.encode("utf-8")
        return {"entered_input": s}
    except UnicodeEncodeError:
        return {"entered_input_codepoints": [ord(c) for c in s]}


def unjstr(inp):
    if "entered_input_codepoints" in inp:
        return "".join(chr(c) for c in inp["entered_input_codepoints"])
    return inp.get("entered_input")


def esc(s):
    return s.encode("unicode_escape").decode("ascii")


def library_parse(s):
    """what datetime.fromisoformat makes of the string the way parse_as_datetime calls it: None (rejected / naive) or
    (utc second (floor), offset in microseconds); used by the oracle for strings it did not render"""
    from datetime import datetime

    if not s:
        return None
    try:
        r = datetime.fromisoformat(s.replace("Z", "+00:00") if s.endswith("Z") else s)
    except ValueError:
        return None
    if r.tzinfo is None:
        return None
    o = r.utcoffset()
    off_us = (o.days * 86400 + o.seconds) * 10 ** 6 + o.microseconds
    us = ((days_of(r.year, r.month, r.day) * 86400 + r.hour * 3600 + r.minute * 60 + r.second) * 10 ** 6 + r.microsecond) - off_us
    return us // 10 ** 6, off_us


class Oracle:
    """direct executable reading of the property on ahbicht alone"""

    MAX_PER_KIND = 40

    def __init__(self, ctx):
        self.ctx, self.count, self.kinds = ctx, 0, {}

    def _fail(self, kind, s, expected, obs, how, shown=False):
        n = self.kinds.get(kind, 0)
        self.kinds[kind] = n + 1
        if n < self.MAX_PER_KIND:
            self.ctx.fail(f"{kind}|{esc(s)}", jstr(s) | {"evaluators": list(KEYS)}, expected, obs if shown else show(obs), how)

    def wellformed(self, s, obs):
        """no exception; a message exactly when unfulfilled"""
        ok = True
        raised = {k: v for k, v in obs.items() if not isinstance(v, tuple)}
        if raised:
            self._fail("raises", s, "every evaluator returns an EvaluatedFormatConstraint (no string input raises)", obs,
                       "oracle: evaluate_931..935 must not raise on a string")
            ok = False
        for k, v in obs.items():
            if isinstance(v, tuple) and v[0] == v[1]:
                self._fail("message", s, "error message exactly when unfulfilled", obs, f"oracle: evaluate_{k} message iff unfulfilled")
                ok = False
        return ok

    def instant(self, s, obs, t, off, how):
        """s writes the instant t (in 1996..2037) with offset off seconds"""
        self.count += 1
        if not self.wellformed(s, obs):
            return
        want = expected_for_instant(t, off)
        got = {k: obs[k][0] for k in KEYS}
        if got["931"] != want["931"]:
            self._fail("931", s, {"931": [want["931"], not want["931"]], "reason": f"UTC offset of the written datetime is {off} s"}, obs,
                       how + ": 931 fulfilled iff the offset is zero")
        if any(got[k] != want[k] for k in KEYS[1:]):
            self._fail("strom-gas", s, {k: [want[k], not want[k]] for k in KEYS[1:]} | {"german_local_second_of_day": (t + eu_offset(t)) % 86400}, obs,
                       how + ": 932/933 iff 00:00:00 and 934/935 iff 06:00:00 German local time (EU rule)")

    def unparsable(self, s, obs, how):
        self.count += 1
        if not self.wellformed(s, obs):
            return
        if any(obs[k] != (False, True) for k in KEYS):
            self._fail("unparsable", s, {k: [False, True] for k in KEYS}, obs, how + ": a string that is not a datetime with offset is unfulfilled with a message")

    def any_string(self, s, obs, how):
        """a string the harness did not render: judge it by what the library parser makes of it"""
        p = library_parse(s)
        if p is None:
            self.unparsable(s, obs, how)
            return False
        t, off_us = p
        if days_of(FIRST_YEAR, 1, 1) * 86400 <= t < days_of(LAST_YEAR + 1, 1, 1) * 86400:
            self.count += 1
            if self.wellformed(s, obs):
                want = expected_for_instant(t, off_us)
                if any(obs[k][0] != want[k] for k in KEYS):
                    self._fail("parsed", s, {k: [want[k], not want[k]] for k in KEYS}, obs, how + ": verdict for the instant the library parser reads")
        else:
            self.count += 1
            self.wellformed(s, obs)
        return True


def tz_validation(ctx):
    """tie T: table_offset (generated table, Coq) against pytz berlin.fromutc on a grid of instants"""
    from datetime import datetime, timedelta

    import pytz

    from vlib import gen_tz

    tab, tz, _version = gen_tz.table()
    epoch = datetime(1970, 1, 1)
    lo, hi = days_of(1, 1, 1) * 86400, days_of(9999, 12, 31) * 86400
    grid = {lo, lo + 1, hi - 1, 0, days_of(FIRST_YEAR, 1, 1) * 86400, days_of(LAST_YEAR + 1, 1, 1) * 86400 - 1}
    for t, _ in tab:
        grid |= {x for x in (t - 1, t, t + 1, t + 3600) if lo <= x < hi}
    import random

    trng = random.Random(f"C20-tz-{ctx.seed}")  # its own stream: a replay (which skips this step) must see the same strings in the same order as the run
    for _ in range(1500 if ctx.quick else 20000):
        grid.add(trng.randrange(lo, hi))
        grid.add(trng.randrange(days_of(1890, 1, 1) * 86400, days_of(2040, 1, 1) * 86400))
    cases = []
    for s in sorted(grid):
        loc = tz.fromutc(epoch + timedelta(seconds=s))
        o = loc.utcoffset()
        cases.append(f"({s}, {o.days * 86400 + o.seconds})%Z")
    n, bad, err = runner.run_case_files("C20_tz", IMPORTS, "tz_case", "tz_check", cases, shard=2000)
    if err:
        ctx.broke("translator validation for Gen_tz could not be evaluated", err)
    for i in bad[:10]:
        ctx.broke("translator validation mismatch (Gen_tz table_offset vs pytz fromutc)", cases[i])
    res, out = runner.eval_terms("C20_tz", IMPORTS, [f"tz_len_check {len(tab)}%Z"], tag="len")
    if res is None or res[0] != "true":
        ctx.broke("Gen_tz: number of generated transitions differs from pytz", str(res) + (out or "")[-500:])
    ctx.notes["translator_validation"] = {"instants": n, "mismatches": len(bad), "transitions": len(tab), "pytz": pytz.__version__}
    return n


def run(ctx):
    from vlib import impl  # noqa: F401

    built = prepare(ctx, ["Gen_tz"], ["Props/C20.vo", "Corr/Time.vo"])
    ev = _evaluator()
    oracle = Oracle(ctx)
    rng = ctx.rng
    n_eval = 0
    if built and ctx.notes.get("gen_status", {}).get("Gen_tz") == "ok":
        n_eval += tz_validation(ctx)

    cases, meta, seen = [], [], set()

    def add_case(s, obs, what):
        if s in seen:
            return
        seen.add(s)
        cases.append(f"({gtext(s)}, [{'; '.join(gobs(obs[k]) for k in KEYS)}])")
        meta.append((s, obs, what))

    # --- 1. the malformed stream and the edges of the representable range (first: these name the classic witnesses)
    stream = list(MALFORMED) + PADDED
    for _ in range(1500 if ctx.quick else 30000):
        s = random_spelling(rng)
        if rng.random() < 0.6:
            s = mutate(rng, s)
        stream.append(s)
    for s, _ in zip((render(t, ot, o, ("T", "sec")) for t, _tag in switch_instants(ctx)[::37] for ot, o in OFFSETS[:5]), range(400 if ctx.quick else 3000)):
        stream.append(mutate(rng, s))
    n_parsed_other = 0
    for s in stream:
        obs = observe(ev, s)
        n_parsed_other += oracle.any_string(s, obs, "oracle on the malformed / fuzz stream")
        add_case(s, obs, "malformed/fuzz")

    # --- 2. rendered instants: switch days and year borders x offsets x shapes
    instants = switch_instants(ctx)
    per_instant = {}
    n_rendered = n_fulfilled = 0
    for i, (t, tag) in enumerate(instants):
        verdicts = set()
        for j, (ot, off) in enumerate(OFFSETS):
            shapes = [SHAPES[(i + j) % len(SHAPES)], SHAPES[(i + 3 * j + 1) % len(SHAPES)]]
            if not ctx.quick:
                shapes.append(SHAPES[(i + 5 * j + 2) % len(SHAPES)])
            for sh_i, sh in enumerate(shapes):
                s = render(t, ot, off, sh)
                obs = observe(ev, s)
                n_rendered += 1
                oracle.instant(s, obs, t, off, f"oracle on the rendered instant t={t} ({tag})")
                if all(isinstance(obs[k], tuple) for k in KEYS):
                    verdicts.add(tuple(obs[k] for k in KEYS[1:]))
                    n_fulfilled += any(obs[k][0] for k in KEYS[1:])
                # correspondence: one shape for a rotating third (quick) / half (thorough) of the offsets of each instant
                if sh_i == 0 and (i + j) % (3 if ctx.quick else 2) == 0:
                    add_case(s, obs, tag)
        if len(verdicts) > 1:
            s0 = render(t, "Z", 0, ("T", "sec"))
            oracle._fail("invariance", s0, "one verdict of 932..935 for all offsets and shapes of the same instant", {"932-935 verdicts seen": sorted(map(str, verdicts))},
                         f"oracle: offset invariance at t={t} ({tag})", shown=True)
        per_instant[t] = verdicts

    # --- 3. thorough: every second of the switch days +- 2 h (oracle only), one spelling each
    n_dense = 0
    if not ctx.quick:
        for y in range(FIRST_YEAR, LAST_YEAR + 1):
            for m in (3, 10):
                sw = last_sunday(y, m) * 86400 + 3600
                for t in range(sw - 7200, sw + 7201):
                    ot, off = OFFSETS[t % len(OFFSETS)]
                    s = render(t, ot, off, SHAPES[(t // 7) % len(SHAPES)])
                    oracle.instant(s, observe(ev, s), t, off, f"oracle on every second around the switch {y}-{m:02d}")
                    n_dense += 1

    # --- 4. the same answers through the dispatch by key (FcEvaluator.evaluate_single_format_constraint)
    n_dispatch = _dispatch_check(ctx, ev, PADDED + [m[0] for m in meta[:: max(1, len(meta) // 150)]])

    # --- correspondence in Coq
    n, bad, err = runner.run_case_files("C20", IMPORTS, "time_case", "time_check", cases)
    if err:
        ctx.broke("correspondence (C20) could not be evaluated in Coq", err)
    for i in bad[:20]:
        s, obs, what = meta[i]
        ctx.broke("correspondence mismatch (C20): model and ahbicht differ", json.dumps(jstr(s) | {"observed": show(obs), "stream": what}, ensure_ascii=True))
    n_eval += n
    aware = sum(1 for s, obs, _ in meta if library_parse(s) is not None)
    ctx.notes["correspondence"] = {"cases": n, "mismatches": len(bad), "strings_parsed_as_aware_datetime": aware,
                                   "malformed_or_fuzz_strings": len(stream), "of_which_accepted_by_the_parser": n_parsed_other}
    ctx.notes["oracle"] = {"instants": len(instants), "rendered_strings": n_rendered, "rendered_strings_with_a_fulfilled_limit": n_fulfilled,
                           "dense_seconds_around_switches": n_dense, "checks": oracle.count, "failures_by_kind": oracle.kinds,
                           "dispatch_by_key_checked": n_dispatch}
    ctx.add_eval(n_eval)
    ctx.coverage["distinct_nontrivial"] = aware
    ctx.coverage["rule"] = (
        "correspondence (model vs FcEvaluator.evaluate_931..935, all five per string): for every year 1996..2037 both switch days +-3 h "
        f"({'60 s within 15 min of the switch, 900 s elsewhere' if ctx.quick else '1 s within 2 min of the switch, 300 s elsewhere'}), the seconds around local 00:00/06:00 of those days, first and last day of each year, "
        "x offsets {Z,+00:00,+01:00,-01:00,+02:00,+05:30,-08:00,+14:00,-12:00,+23:59,-23:59,+01:00:30} x shapes {T or space; HH:MM, :SS, .f{1,3,6}} "
        f"(a rotating {'third' if ctx.quick else 'half'} of the offsets with one shape per instant; the oracle sees all offsets with {'two' if ctx.quick else 'three'} shapes); the malformed list (empty, naive, truncated, 24:00, month 13, year 1/9999 edges, "
        "lower-case z, spaces, NUL, surrogates, week dates, basic format) and random spellings/mutations; non-trivial = distinct strings that parse as an aware datetime "
        "(the verdict is a judgement about an instant); tie T: table_offset vs pytz fromutc on every transition +-1 s and random instants of year 1..9999; "
        "oracle = independent integer EU rule on every rendered string (all offsets), offset invariance per instant, no exception, message iff unfulfilled")
    for pick in ("2022-03-27T00:00:00+01:00", "0001-01-01T00:00:00+05:00"):
        for s, obs, what in meta:
            if s == pick:
                ctx.sample(jstr(s) | {"observed": show(obs), "stream": what})
    for s, obs, what in meta[len(stream) + 5:: max(1, len(meta) // 4)]:
        ctx.sample(jstr(s) | {"observed": show(obs), "stream": what})
    ctx.trusted += ["CPython 3.12 datetime.fromisoformat / astimezone and pytz DstTzInfo.fromutc are modelled (Model/Time.v), not verified; tied by the C20 correspondence "
                    f"({n} strings in this run) and by the fingerprint of fromutc's source in vlib/gen_tz.py"]
    return finish(ctx, assumptions=[
        "the entered input is a str (None is not a string); datetime/pytz behaviour as modelled in Model/Time.v (correspondence)",
        "C20_strom_gas quantifies over the ISO-8601 extended-format shapes of `render`; every other accepted spelling is covered by C20_judges_instant",
    ])


def _dispatch_check(ctx, ev, strings):
    import asyncio

    from ahbicht.content_evaluation.fc_evaluators import text_to_be_evaluated_by_format_constraint

    n = 0
    for s in strings:
        if not s:
            continue  # the context variable treats the empty text as "nothing entered"
        direct = observe(ev, s)
        for k in KEYS:
            if not isinstance(direct[k], tuple):
                continue
            try:
                async def call(key=k, text=s):
                    text_to_be_evaluated_by_format_constraint.set(text)
                    return await ev.evaluate_single_format_constraint(key)

                r = asyncio.run(call())
                got = (bool(r.format_constraint_fulfilled), r.error_message is not None)
            except Exception as e:  # pylint: disable=broad-except
                got = e
            n += 1
            if got != direct[k]:
                ctx.fail(f"dispatch|{k}|{esc(s)}", jstr(s) | {"evaluators": [k]}, {k: list(direct[k])}, show({k: got}),
                         "oracle: evaluate_single_format_constraint(key) answers like evaluate_<key>(text)")
    return n


def replay(path):
    r = json.load(open(path, encoding="utf-8"))
    inp = r.get("input") or {}
    s = unjstr(inp)
    print("replay", repr(s))
    print(" expected:", r.get("expected"))
    print(" recorded:", r.get("observed"), "|", r.get("how"))
    if isinstance(s, str):
        ev = _evaluator()
        print(" observed now:", show(observe(ev, s)))
        p = library_parse(s)
        if p is not None and days_of(FIRST_YEAR, 1, 1) * 86400 <= p[0] < days_of(LAST_YEAR + 1, 1, 1) * 86400:
            print(" instant (UTC second):", p[0], "offset us:", p[1], "EU-rule verdicts:", expected_for_instant(p[0], p[1]))
    return 0
