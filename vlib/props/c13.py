"""C13 -- validation covers the AHB tree once, in order; parents dominate children."""
import asyncio

from vlib import evalimpl, valcorr
from vlib.runner import finish, prepare

GENS = ["Gen_logic", "Gen_ranges", "Gen_valmaps", "Gen_enums", "Gen_select", "Gen_status"]
COMBINE = {(None, "IS_REQUIRED"): "IS_REQUIRED", (None, "IS_OPTIONAL"): "IS_OPTIONAL", (None, "IS_FORBIDDEN"): "IS_FORBIDDEN",
           ("IS_REQUIRED", "IS_REQUIRED"): "IS_REQUIRED", ("IS_REQUIRED", "IS_FORBIDDEN"): "IS_FORBIDDEN", ("IS_REQUIRED", "IS_OPTIONAL"): "IS_OPTIONAL",
           ("IS_OPTIONAL", "IS_REQUIRED"): "IS_OPTIONAL", ("IS_OPTIONAL", "IS_FORBIDDEN"): "IS_FORBIDDEN", ("IS_OPTIONAL", "IS_OPTIONAL"): "IS_OPTIONAL"}


def translator_validation(ctx):
    """Gen_valmaps vs the Python functions on their whole finite domains"""
    from vlib import impl, runner
    from ahbicht.models.enums import ModalMark, PrefixOperator
    from ahbicht.models.validation_values import RequirementValidationValue as R
    from ahbicht.validation.validation import combine_requirements_of_different_levels as comb, map_requirement_validation_values as mp

    terms = []
    inds = [(m, "I_" + m.name) for m in ModalMark] + [(p, "I_P" + p.name) for p in PrefixOperator]
    for f, fg in ((True, "(Some true)"), (False, "(Some false)"), (None, "None")):
        for ind, ig in inds:
            for s in (True, False):
                tag, v = evalimpl.outcome(lambda: mp(f, ind, s))
                terms.append(f"(map_rvv {fg} {ig} {str(s).lower()}, {'Ok ' + v.name if tag == 'ok' else 'Exn ' + v})")
    for p in [None] + list(R):
        for c in R:
            tag, v = evalimpl.outcome(lambda: comb(p, c))
            terms.append(f"(combine_rvv {'None' if p is None else '(Some ' + p.name + ')'} {c.name}, {'Ok ' + v.name if tag == 'ok' else 'Exn ' + v})")
    for r in R:
        for filled in (True, False):
            tag, v = evalimpl.outcome(lambda: R(str(r) + ("_AND_FILLED" if filled else "_AND_EMPTY")))
            terms.append(f"(rvv_suffix {str(filled).lower()} {r.name}, {'Ok ' + v.name if tag == 'ok' else 'Exn ' + v})")
    n, bad, err = runner.run_case_files("C13_tv", "From Ahb Require Import Model.Prelude Gen.Gen_valmaps.", "result rvv * result rvv",
                                        "fun c => result_eqb rvv_eqb (fst c) (snd c)", terms)
    ctx.notes["translator_validation"] = {"cases": n, "mismatches": len(bad)}
    ctx.add_eval(n)
    if err:
        ctx.broke("translator validation for Gen_valmaps could not be evaluated", err)
    for i in bad:
        ctx.broke("translator validation mismatch (Gen_valmaps vs Python)", terms[i])


def expected_preorder(node, status_of):
    """document order, pruned below forbidden segment-level nodes (statuses taken from the report itself)"""
    out = [node[1]]
    if status_of(node[1]) == "IS_FORBIDDEN":
        return out
    if node[0] == "G":
        for c in [c for c in node[3] if c[0] == "G"] + [c for c in node[3] if c[0] == "S"]:
            out += expected_preorder(c, status_of)
    else:
        out += [d[1] for d in node[3]]
    return out


def own_status(node, soll):
    """status of the node validated on its own (no parent, no children) -- uses ahbicht itself"""
    from maus.models.edifact_components import Segment
    from ahbicht.validation.validation import validate_data_element_freetext, validate_segment_level

    if node[0] in ("G", "S"):
        seg = Segment(discriminator=node[1], ahb_expression=node[2], data_elements=[])
        tag, v = evalimpl.outcome(lambda: asyncio.run(validate_segment_level(seg, soll)))
        return ("raises", v) if tag != "ok" else v[0].validation_result.requirement_validation.name
    if node[0] == "F":
        de = valcorr.to_maus(node)
        tag, v = evalimpl.outcome(lambda: asyncio.run(validate_data_element_freetext(de, None, soll)))
        return ("raises", v) if tag != "ok" else v.validation_result.requirement_validation.name
    return None


def documented_status(fulfilled, indicator, soll):
    """the documented mapping requirement indicator x requirement outcome -> status ('raises' = the documented NotImplementedError; None = not fixed
    by the documentation). indicator: 'MUSS' | 'SOLL' | 'KANN' | 'X' | 'O' | 'U'"""
    if indicator == "SOLL":
        indicator = "MUSS" if soll else "KANN"
    if fulfilled is False:
        return "IS_FORBIDDEN"
    mandatory = indicator in ("MUSS", "X", "O", "U")
    if fulfilled is None:
        return "raises" if mandatory else None
    return "IS_REQUIRED" if mandatory else "IS_OPTIONAL"


def mapping_oracle(ctx):
    """every requirement indicator (all spellings of the six) x every requirement outcome x both flags on a single segment-level node and a single
    free-text data element, through validate_segment_level / validate_segment: the reported status is the documented one"""
    from maus.models.edifact_components import DataElementFreeText, Segment
    from ahbicht.validation.validation import validate_segment, validate_segment_level

    n = 0
    spell = {"MUSS": ("Muss", "M", "muss"), "SOLL": ("Soll", "S", "sOLL"), "KANN": ("Kann", "K", "k"), "X": ("X", "x"), "O": ("O", "o"), "U": ("U", "u")}
    for ind, sps in spell.items():
        for sp in sps:
            for state, fulfilled in (("FULFILLED", True), ("UNFULFILLED", False), ("UNKNOWN", None)):
                for soll in (True, False):
                    want = documented_status(fulfilled, ind, soll)
                    if want is None:
                        continue
                    evalimpl.set_cer(rc={"7": state})
                    expr = f"{sp}[7]"
                    seg = Segment(discriminator="SEG", ahb_expression=expr, data_elements=[])
                    tag, v = evalimpl.outcome(lambda: asyncio.run(validate_segment_level(seg, soll)))
                    got = "raises" if tag != "ok" and v == "NotImpl" else (v if tag != "ok" else v[0].validation_result.requirement_validation.name)
                    n += 1
                    if got != want:
                        ctx.fail(f"mapping|seg|{expr}|{state}|{soll}", {"kind": "mapping", "entry": "validate_segment_level", "ahb_expression": expr, "condition_7": state, "soll_is_required": soll},
                                 want, str(got), "oracle: own status = requirement indicator x requirement outcome per the documented mapping")
                    # the same indicator on a free-text data element below a required segment
                    seg2 = Segment(discriminator="SEG", ahb_expression="Muss", data_elements=[
                        DataElementFreeText(discriminator="DE", ahb_expression=expr, entered_input="x", data_element_id="0001")])
                    tag, v = evalimpl.outcome(lambda: asyncio.run(validate_segment(seg2, None, soll)))
                    got = "raises" if tag != "ok" and v == "NotImpl" else (v if tag != "ok" else v[-1].validation_result.requirement_validation.name)
                    want2 = want if want == "raises" else want + "_AND_FILLED"
                    n += 1
                    if got != want2:
                        ctx.fail(f"mapping|de|{expr}|{state}|{soll}", {"kind": "mapping", "entry": "validate_segment", "segment": "Muss", "free_text_ahb_expression": expr, "condition_7": state,
                                                                       "soll_is_required": soll}, want2, str(got),
                                 "oracle: own status = requirement indicator x requirement outcome per the documented mapping (free-text element, FILLED suffix)")
    return n


def evaluated(node):
    """(indicator name, requirement outcome) of the node's own expression under the installed content evaluation result, read off the PARTS of the
    expression: every modal-mark part's resolved condition tree is given its outcome by the compositional semantics (computed here), a bare
    indicator is fulfilled, and the first fulfilled part -- else the last -- decides (the documented selection, C09; ahbicht's own selection loop is not
    asked). None if a part cannot be evaluated (invalid: C16; unresolvable; ...)"""
    from lark import Token, Tree

    res = valcorr.resolved(node[2])
    if res[0] != "ok" or not isinstance(res[1], Tree):
        return None
    canon = {"M": "MUSS", "MUSS": "MUSS", "S": "SOLL", "SOLL": "SOLL", "K": "KANN", "KANN": "KANN", "X": "X", "O": "O", "U": "U"}
    from ahbicht.models.condition_nodes import ConditionFulfilledValue as V

    from vlib import exprs

    outcome_of_state = {V.FULFILLED: True, V.NEUTRAL: True, V.UNFULFILLED: False, V.UNKNOWN: None}
    parts = []
    for ch in res[1].children:
        if isinstance(ch, Token):
            parts.append((canon.get(str(ch).upper()), True))
        elif isinstance(ch, Tree) and len(ch.children) == 2 and isinstance(ch.children[0], Token) and isinstance(ch.children[1], Tree):
            # the part's outcome by the compositional semantics (C04) on the resolved condition tree, computed here -- not by ahbicht's evaluation
            try:
                t = exprs.from_lark(ch.children[1])
            except Exception:  # pylint: disable=broad-except
                t = None
            if t is None or not (exprs.dom(t) and exprs.valid(t)):
                return None
            rho = {k: evalimpl._RC.get(k) for k in exprs.leaves(t) if exprs.kind(k) == "rc"}  # pylint: disable=protected-access
            if any(v is None for v in rho.values()):
                return None
            parts.append((canon.get(str(ch.children[0]).upper()), outcome_of_state[exprs.sem(t, rho, V)]))
        elif isinstance(ch, Tree) and len(ch.children) == 1 and isinstance(ch.children[0], Token):
            parts.append((canon.get(str(ch.children[0]).upper()), True))
        else:
            return None
    if not parts or any(p[0] is None for p in parts):
        return None
    for ind, f in parts:
        if f:
            return (ind, f)
    return parts[-1]


class _OutOfOrder(Exception):
    pass


def oracle(ctx, case):
    """the report is read as a stream: each node consumes its own row (position by position, so repeated discriminators are fine), then its
    children consume theirs unless the node is reported forbidden; statuses are checked on the way"""
    tag, rows = valcorr.summarize(case["res"])
    if tag != "ok":
        return 0
    lines, soll = case["lines"], case["soll"]
    valcorr.reset_cer(case)
    key = str(valcorr.describe(case))[:400]
    pos = [0]
    trace = []

    def visit(node, parent):
        d = node[1]
        trace.append(d)
        if pos[0] >= len(rows) or rows[pos[0]][0] != d:
            raise _OutOfOrder()
        mine = rows[pos[0]][1]
        at = pos[0]
        pos[0] += 1
        if parent != "IS_FORBIDDEN" and node[0] in ("G", "S", "F") and not (node[0] == "F" and parent is None):
            own = own_status(node, soll)
            if isinstance(own, tuple):
                # the node has no status of its own (its evaluation aborts, e.g. UNKNOWN under MUSS): a report that lists it anyway made one up
                if own[1] == "NotImpl":
                    ctx.fail(f"status|{d}|{key}", dict(valcorr.describe(case), node=d, row=at), f"the run aborts with {own[1]} (the node validated on its own does)", f"reported as {mine}",
                             "oracle: status = own status combined with the parent's per the documented table")
                own = None
            if own is not None:
                base = own.replace("_AND_FILLED", "").replace("_AND_EMPTY", "")
                exp = COMBINE.get((parent, base))
                if node[0] == "F" and exp is not None:
                    exp += "_AND_FILLED" if node[3] else "_AND_EMPTY"
                # an invalid expression yields IS_OPTIONAL without suffix: own_status shows the same
                if exp is not None and mine != exp and not (node[0] == "F" and mine == "IS_OPTIONAL"):
                    ctx.fail(f"status|{d}|{key}", dict(valcorr.describe(case), node=d, row=at), f"{exp} (own {own} under parent {parent})", mine, "oracle: status = own status combined with the parent's per the documented table")
            # the documented mapping itself: indicator x outcome of the node's expression, combined with the parent
            ev = evaluated(node)
            if ev is not None:
                doc = documented_status(ev[1], ev[0], soll)
                if doc == "raises":
                    ctx.fail(f"mapping|{d}|{key}", dict(valcorr.describe(case), node=d, row=at), f"the run aborts with NotImplementedError ({ev[0]} with an undetermined outcome)", f"reported as {mine}",
                             "oracle: a visited MUSS / prefix-operator node with an undetermined outcome aborts the run")
                elif doc is not None:
                    exp = COMBINE.get((parent, doc))
                    if node[0] == "F" and exp is not None:
                        exp += "_AND_FILLED" if node[3] else "_AND_EMPTY"
                    if exp is not None and mine != exp:
                        ctx.fail(f"mapping|{d}|{key}", dict(valcorr.describe(case), node=d, row=at), f"{exp} ({ev[0]}, outcome {ev[1]}, parent {parent})", mine,
                                 "oracle: own status = requirement indicator x requirement outcome per the documented mapping, combined with the parent's status")
        if node[0] in ("G", "S") and mine != "IS_FORBIDDEN":
            kids = [c for c in node[3] if c[0] == "G"] + [c for c in node[3] if c[0] == "S"] if node[0] == "G" else node[3]
            for c in kids:
                visit(c, mine)

    try:
        for n in lines:
            visit(n, None)
        if pos[0] != len(rows):
            trace.append("<end of the document>")
            raise _OutOfOrder()
        # the other entry point: validate_segment_level on every top-level group gives that group's part of the report; on a segment it gives
        # what validate_segment gives
        parts = []
        for n in lines:
            t2, r2 = valcorr.summarize(valcorr.run_segment_level(n, soll))
            parts = None if t2 != "ok" or parts is None else parts + r2
        if parts is not None and parts != rows:
            ctx.fail(f"level|{key}", dict(valcorr.describe(case), entry="validate_segment_level"), f"the rows of validate_deep_anwendungshandbuch: {[(r[0], r[1]) for r in rows][:12]}",
                     f"{[(r[0], r[1]) for r in parts][:12]}", "oracle: validate_segment_level on the top-level groups reports what validate_deep_anwendungshandbuch reports for them")
        sg = valcorr.first_segment(lines[0]) if lines else None
        if sg is not None:
            a, b = valcorr.summarize(valcorr.run_segment_level(sg, soll)), valcorr.summarize(valcorr.run_segment(sg, None, soll))
            if a != b:
                ctx.fail(f"level-segment|{key}", dict(valcorr.describe(case), entry="validate_segment_level", segment=sg[1]), str(b)[:400], str(a)[:400],
                         "oracle: validate_segment_level on a segment is validate_segment on it")
    except _OutOfOrder:
        got = [r[0] for r in rows]
        ctx.fail(f"order|{key}", valcorr.describe(case), f"document order, pruned below forbidden nodes: {trace[:-1]} then {trace[-1]!r} as row {pos[0]}", f"{got}",
                 "oracle: every node once, in document order, nothing below a forbidden node")
    return 1


def run(ctx):
    built = prepare(ctx, GENS, ["Props/C13.vo", "Corr/Validate.vo", "Proofs/C09_gen.vo", "Proofs/C13_gen.vo"])
    translator_validation(ctx)
    cases = valcorr.validation_cases(ctx, 60 if ctx.quick else 1500, unknown=0.04)
    cases += valcorr.validation_cases(ctx, 40 if ctx.quick else 600, unknown=0.35)   # UNKNOWN outcomes at many nodes: the abort rule of the mapping
    cases += valcorr.validation_cases(ctx, 40 if ctx.quick else 600, unknown=0.02, repeat_discriminators=0.3)   # discriminators are not unique in real AHBs
    cases += valcorr.validation_cases(ctx, 30 if ctx.quick else 400, unknown=0.02, extra_attrs=1.0)   # optional attributes of the maus model filled (line index not in list order, section names)
    # the same trees validated again under other content, where "content" includes the package definitions: expressions with packages, most trees revisited
    cases += valcorr.validation_cases(ctx, 30 if ctx.quick else 400, kind="pkg", unknown=0.02, revisit=0.7)
    cases += valcorr.validation_cases(ctx, 20 if ctx.quick else 300, unknown=0.03, revisit=0.6)
    valcorr.check_val_correspondence(ctx, cases, "C13")
    nontrivial = sum(oracle(ctx, c) for c in cases)
    ctx.add_eval(mapping_oracle(ctx))
    ctx.coverage["distinct_nontrivial"] = nontrivial
    ctx.coverage["rule"] = ("random DeepAnwendungshandbuch trees (depth <= 4, mixed indicators, several modal marks, packages, hints, format constraints, value pools, some invalid / "
                            "unknown-producing expressions) x random content evaluation results x both values of soll_is_required through validate_deep_anwendungshandbuch; the whole "
                            "result list (discriminator, status, hints, format result, possible values, type) or the exception class is compared with the model, which re-evaluates "
                            "every node from the resolved tree; non-trivial = runs that returned a report (oracle: order / pruning / dominance recomputed)")
    ctx.notes["exception_runs"] = sum(1 for c in cases if c["res"][0] == "exn")
    c0 = cases[0]
    ctx.sample({"lines": c0["lines"], "soll": c0["soll"], "report": valcorr.summarize(c0["res"])[1][:6] if c0["res"][0] == "ok" else c0["res"][1]})
    return finish(ctx, assumptions=["node expressions reach the model as the resolved trees ahbicht parsed (parser/resolver are C01/C02/C10)",
                                    "dict-based evaluators; the invalid-expression reason text is canonicalised"])


def replay(path):
    return valcorr.replay_validation(path)
