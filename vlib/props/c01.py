"""C01 -- grouping follows the documented precedence (parser correspondence + precedence oracle + metamorphic oracle)."""
import itertools
import re

from vlib import pyparse, runner, strings
from vlib.runner import finish, gtext, prepare

IMPORTS = "From Ahb Require Import Model.Prelude Model.Grammar Gen.Gen_grammar Model.Lex Corr.Parse."
ATOM_RE = re.compile(r"\[\s*(UB[123]|\d+P(?:\s*\d+\.\.\d+)?|\d+)\s*\]")


def atom_norm(s):
    """text of an atom as flat_lark prints it"""
    m = ATOM_RE.fullmatch(s)
    body = m.group(1)
    if body.startswith("UB"):
        return "time_condition:" + body
    if "P" in body:
        k, _, rep = body.partition("P")
        rep = rep.strip()
        return "package:" + k + "P" + ("|" + rep if rep else "")
    return "condition:" + body


def render(rng, toks):
    """returns (string, oracle tokens)"""
    out, otoks = [], []
    for t in toks:
        if t == "A":
            a = strings.random_atom(rng)
            out.append(a)
            otoks.append(("A", atom_norm(a)))
        elif t in strings.OPSP:
            out.append(rng.choice(strings.OPSP[t]))
            otoks.append(t)
        else:
            out.append(t)
            otoks.append(t)
        if rng.random() < 0.3:
            out.append(rng.choice(strings.WS) * rng.choice((1, 1, 2)))
    return "".join(out), otoks


def rerender(rng, otoks, brackets=False):
    """same tokens, other spelling / white space; optionally redundant brackets around random well-formed spans"""
    toks = list(otoks)
    if brackets:
        for _ in range(rng.randint(1, 3)):
            # wrap a random sub-span that is itself a complete operand sequence: try until the oracle parser accepts
            for _try in range(10):
                i = rng.randrange(len(toks))
                j = rng.randrange(i, len(toks)) + 1
                cand = toks[:i] + ["("] + toks[i:j] + [")"] + toks[j:]
                try:
                    pyparse.parse(toks[i:j])
                    if pyparse.parse(cand) == pyparse.parse(toks):
                        toks = cand
                        break
                except pyparse.Reject:
                    continue
    out = []
    for t in toks:
        if isinstance(t, tuple):
            kind, _, body = t[1].partition(":")
            body = body.replace("|", " " if rng.random() < 0.5 else "")
            out.append(f"[{' ' * rng.choice((0, 0, 1))}{body}{' ' * rng.choice((0, 0, 1))}]")
        elif t in strings.OPSP:
            out.append(rng.choice(strings.OPSP[t]))
        else:
            out.append(t)
        if rng.random() < 0.4:
            out.append(rng.choice(strings.WS))
    return "".join(out)


def parse_impl(s):
    from vlib import impl
    from ahbicht.expressions.condition_expression_parser import parse_condition_expression_to_tree

    try:
        return ("ok", parse_condition_expression_to_tree(s))
    except BaseException as e:  # pylint: disable=broad-except
        if isinstance(e, (KeyboardInterrupt, SystemExit)):
            raise
        return ("exn", impl.exc_class(e))


def obs_term(res):
    tag, v = res
    if tag == "ok":
        try:
            return f"(Ok {strings.lark_to_gallina(v)})"
        except ValueError:
            return "(Exn OtherErr)"
    return f"(Exn {v})"


def gen_cases(ctx, exh_len, n_random, max_atoms):
    cases = []
    for toks in strings.token_sequences(exh_len):
        cases.append(render(ctx.rng, toks))
    # one length beyond, sampled
    nxt = list(itertools.product(("A", "O", "X", "U", "(", ")"), repeat=exh_len + 1))
    for toks in ctx.rng.sample(nxt, min(len(nxt), 4000 if ctx.quick else 60000)):
        cases.append(render(ctx.rng, toks))
    for _ in range(n_random):
        cases.append(render(ctx.rng, strings.random_wf_tokens(ctx.rng, ctx.rng.randint(2, max_atoms))))
    # long flat chains (13-30 operands, mixed operators and spellings, few brackets): sizes beyond what a size-dependent code path may special-case
    for _ in range(50 if ctx.quick else 600):
        n = ctx.rng.randint(13, 30)
        toks = []
        for i in range(n):
            if i:
                op = ctx.rng.choice(("O", "X", "U", "U", None))
                if op:
                    toks.append(op)
            toks.append("A")
        if ctx.rng.random() < 0.3:
            i = ctx.rng.randrange(0, len(toks), 1)
            i -= 0 if toks[i] == "A" else 1
            toks = toks[:i] + ["(", "A", ctx.rng.choice(("O", "X", "U")), "A", ")"] + toks[i + 1:]
        cases.append(render(ctx.rng, toks))
    return cases


def run(ctx):
    built = prepare(ctx, ["Gen_grammar"], ["Props/C01.vo", "Corr/Parse.vo"])
    cases = gen_cases(ctx, 5 if ctx.quick else 6, 600 if ctx.quick else 8000, 20 if ctx.quick else 24)
    # oracle 3 (first, while the parse cache is still empty): the grouping is a function of the string alone -- also after a caller changed, in
    # place, a tree it was handed earlier (first parse of a string, edit of the returned tree at the root and one level down, second parse)
    n_hist = 0
    for s, otoks in [c for c in cases if c[1] is not None and len(c[1]) > 2][-(60 if ctx.quick else 400):]:
        try:
            want = pyparse.parse(otoks)
        except pyparse.Reject:
            continue
        r1 = parse_impl(s)
        if r1[0] != "ok" or not getattr(r1[1], "children", None):
            continue
        t1 = r1[1]
        t1.children.reverse()
        for ch in t1.children:
            if getattr(ch, "children", None):
                del ch.children[0]
                break
        t1.children.append(t1.children[0])
        r2 = parse_impl(s)
        n_hist += 1
        if r2[0] != "ok" or pyparse.flat_lark(r2[1]) != want:
            ctx.fail(f"history|{s}", {"expression": s}, f"grouping {want}", f"{pyparse.flat_lark(r2[1]) if r2[0] == 'ok' else r2[1]}",
                     "oracle: second parse of a string after the tree returned by its first parse was edited in place")
    ctx.add_eval(n_hist)
    terms, results = [], []
    for s, otoks_ in cases:
        r = parse_impl(s)
        results.append(r)
        terms.append(f"({gtext(s)}, {obs_term(r)})")
        ctx.dist("tokens", ctx.bucket(len(otoks_)) if otoks_ is not None else "unknown")
        ctx.dist("characters", ctx.bucket(len(s)))
        ctx.dist("outcome", "tree" if r[0] == "ok" else r[1])
    n, bad, err = runner.run_case_files("C01", IMPORTS, "parse_case", "parse_check", terms)
    if err:
        ctx.broke("correspondence (parser) could not be evaluated in Coq", err)
    for i in bad[:20]:
        ctx.broke("correspondence mismatch (parser): model and Lark differ", f"{cases[i][0]!r} -> {terms[i][-300:]}")
    ctx.notes["correspondence"] = {"parser": {"cases": n, "mismatches": len(bad)}}
    ctx.add_eval(n)
    # oracle 1: the documented precedence read by an independent Python parser
    n_wf, seen = 0, set()
    wf_cases = []
    for (s, otoks), r in zip(cases, results):
        try:
            want = pyparse.parse(otoks)
        except pyparse.Reject:
            continue
        if r[0] != "ok":
            continue  # acceptance is C02's business
        got = pyparse.flat_lark(r[1])
        if len(otoks) > 1 and s not in seen:
            seen.add(s)
            n_wf += 1
            wf_cases.append((s, otoks, got))
        if got != want:
            ctx.fail(f"prec|{s}", {"expression": s}, f"grouping {want}", f"grouping {got}", "oracle: grouping differs from the documented precedence (modulo same-operator runs)")
    # oracle 2: spelling, white space and redundant brackets never change the grouping
    n_meta = 0
    sample = wf_cases if not ctx.quick else ctx.rng.sample(wf_cases, min(len(wf_cases), 1500))
    for s, otoks, got in sample:
        for br in (False, True):
            s2 = rerender(ctx.rng, otoks, brackets=br)
            r2 = parse_impl(s2)
            n_meta += 1
            if r2[0] != "ok":
                ctx.fail(f"meta|{s}|{s2}", {"expression": s, "transformed": s2}, "parses to the same grouping", f"raises {r2[1]}", "oracle: respelling/white space/brackets")
            elif pyparse.flat_lark(r2[1]) != got:
                ctx.fail(f"meta|{s}|{s2}", {"expression": s, "transformed": s2}, f"{got}", f"{pyparse.flat_lark(r2[1])}", "oracle: respelling/white space/redundant brackets changed the grouping")
    ctx.add_eval(n_meta)
    ctx.coverage["distinct_nontrivial"] = n_wf
    ctx.coverage["rule"] = (f"every token sequence over {{atom,O,X,U,(,)}} up to length {5 if ctx.quick else 6} (exhaustive; atoms are keys, packages with/without repeatability, "
                            "time conditions; spelling, letter case and white space drawn from the PRNG), a sample one length beyond, random well-formed expressions; "
                            "Lark's tree (or exception class) vs the model parser modulo runs; oracles: independent precedence parser, and re-rendering with other spellings / "
                            "white space / redundant brackets; non-trivial = distinct accepted strings with more than one token")
    ctx.notes["exhaustive_scope"] = f"token sequences up to length {5 if ctx.quick else 6}: complete"
    for s, otoks, got in wf_cases[200:203]:
        ctx.sample({"expression": s, "grouping": str(got)})
    return finish(ctx, assumptions=["Lark's Earley + ambiguity='resolve' is modelled by Rc (lowest rule order per span), not verified; validated by this correspondence",
                                    "the character-level lexer model (Model/Lex.v) is validated by the same correspondence"])


def replay(path):
    import json

    r = json.load(open(path, encoding="utf-8"))
    for k in ("expression", "transformed"):
        if k in r.get("input", {}):
            s = r["input"][k]
            res = parse_impl(s)
            print(k, repr(s), "->", pyparse.flat_lark(res[1]) if res[0] == "ok" else res)
    print("expected:", r.get("expected"))
    return 0
