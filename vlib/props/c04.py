"""C04 -- requirement-constraint evaluation = compositional semantics (also drives the shared corpus of C05/C06)."""
from vlib import evalcorr, exprs, runner
from vlib.runner import finish, prepare

GENS = ["Gen_logic", "Gen_ranges", "Gen_rccb", "Gen_rctail"]   # Gen_rccb: the transformer callbacks as executed by the translator (Proofs/C04_gen.v)


def scope(ctx):
    return (3, 500, 12) if ctx.quick else (3, 4000, 25)


def common(ctx, props_target, extra_targets=(), extra_gens=()):
    built = prepare(ctx, GENS + list(extra_gens), [props_target, "Corr/Eval.vo", "Proofs/C04_gen.vo", "Proofs/C04_tail.vo", *extra_targets])
    mx, nr, ml = scope(ctx)
    cases = evalcorr.corpus(ctx, mx, nr, ml)
    return built, cases


def distribution(cases, raws):
    """what the corpus looks like: sizes, operators, assigned states, kinds of outcome (printed into the evidence)"""
    from collections import Counter

    leaves, ops, states, outcomes, kinds = Counter(), Counter(), Counter(), Counter(), Counter()

    def walk(t):
        if t[0] == "L":
            kinds[exprs.kind(t[1])] += 1
        else:
            ops[t[0]] += 1
            walk(t[1])
            walk(t[2])

    for (t, rho), (tag, v) in zip(cases, raws):
        n = exprs.size(t)
        leaves["1" if n == 1 else "2" if n == 2 else "3" if n == 3 else "4-6" if n <= 6 else "7-9" if n <= 9 else "10+"] += 1
        walk(t)
        for s_ in rho.values():
            states[s_] += 1
        outcomes["evaluates" if tag == "ok" else str(v)] += 1
    valid = sum(1 for (t, _r) in cases if exprs.dom(t) and exprs.valid(t))
    return {"cases": len(cases), "leaves": dict(leaves), "operators": dict(ops), "leaf_kinds": dict(kinds), "assigned_states": dict(states),
            "outcome_kinds": dict(outcomes), "in_domain_and_valid": valid}


RC_LEVEL = {}   # filled by correspondence(): the cases and raw outcomes of requirement_constraint_evaluation


def correspondence(ctx, cases, tag, levels=("node", "rc")):
    """tie C; returns raw node-level outcomes aligned with cases"""
    raws = None
    for lvl in levels:
        sub = cases if lvl == "node" or not ctx.quick else cases[:: max(1, len(cases) // 2500)]
        n, bad, r = evalcorr.run_eval_correspondence(ctx, sub, lvl, tag=tag)
        if lvl == "rc":
            RC_LEVEL["cases"], RC_LEVEL["raws"] = sub, r
        if lvl == "node":
            raws = r
            ctx.notes["input_distribution"] = distribution(cases, r)
        ctx.add_eval(n)
        evalcorr.report_mismatches(ctx, lvl, bad, None)
    return raws


def run(ctx):
    from vlib import impl  # noqa: F401
    from ahbicht.models.condition_nodes import ConditionFulfilledValue as V

    built, cases = common(ctx, "Props/C04.vo", extra_gens=["Gen_fcmsg"])
    raws = correspondence(ctx, cases, "C04")
    # oracle: the statement itself on ahbicht -- state = recursive application of the enum operators
    seen, nontrivial = set(), 0
    for (t, rho), (tag, v) in zip(cases, raws):
        if not (exprs.dom(t) and exprs.valid(t)):
            continue
        key = (exprs.show(t), tuple(sorted(rho.items())))
        if key in seen:
            continue
        seen.add(key)
        if t[0] != "L":
            nontrivial += 1
        want = exprs.sem(t, {k: V[s] for k, s in rho.items()}, V)
        if tag != "ok":
            ctx.fail(f"{key[0]}|{key[1]}|raises", {"expression": key[0], "rc": rho}, f"state {want}", f"raises {v}", "oracle: valid in-domain expression must evaluate")
            continue
        if v.conditions_fulfilled != want:
            ctx.fail(f"{key[0]}|{key[1]}|state", {"expression": key[0], "rc": rho}, str(want), str(v.conditions_fulfilled), "oracle: state differs from the compositional semantics")
    # ... and the reported outcome of requirement_constraint_evaluation follows that state
    want_outcome = {V.FULFILLED: (True, True), V.NEUTRAL: (True, False), V.UNFULFILLED: (False, True), V.UNKNOWN: (None, None)}
    for (t, rho), (tag, v) in zip(RC_LEVEL.get("cases", []), RC_LEVEL.get("raws", [])):
        if not (exprs.dom(t) and exprs.valid(t)):
            continue
        if tag != "ok":
            ctx.fail(f"{exprs.show(t)}|{tuple(sorted(rho.items()))}|outcome-raises", {"expression": exprs.show(t), "rc": rho}, "a reported outcome", f"raises {v}",
                     "oracle: requirement_constraint_evaluation of a valid in-domain expression with a total assignment must not raise")
            continue
        want = want_outcome[exprs.sem(t, {k: V[s] for k, s in rho.items()}, V)]
        got = (v.requirement_constraints_fulfilled, v.requirement_is_conditional)
        if got != want:
            ctx.fail(f"{exprs.show(t)}|{tuple(sorted(rho.items()))}|outcome", {"expression": exprs.show(t), "rc": rho}, f"(fulfilled, conditional) = {want}", str(got),
                     "oracle: reported outcome differs from the one the compositional state stands for")
    # the assignment delivered through ahbicht's own content-evaluation-result based evaluators, one evaluation after the other (fresh body / one body updated in place)
    from vlib import cerconc, evalimpl

    ctx.add_eval(cerconc.rc_history_oracle(ctx, "oracle: the outcome of requirement_constraint_evaluation is the one of THIS evaluation's assignment, whatever was evaluated before "
                                                "and however the content evaluation result is handed over", n_expr=6 if ctx.quick else 60))
    evalimpl._configured = False  # pylint: disable=protected-access
    # the same outcome when the user's asynchronous evaluators really suspend (one key slower than the others, ...): last, it re-configures the injector
    from vlib import latency

    ctx.add_eval(latency.rc_latency_oracle(ctx, cases, 25 if ctx.quick else 300,
                                           "oracle: the outcome of requirement_constraint_evaluation does not depend on how long the single evaluators take"))
    ctx.coverage["distinct_nontrivial"] = nontrivial
    ctx.coverage["rule"] = ("all trees with <= 3 leaves over keys {1,2|501,502|901,902} x 4 operators x all assignments of {FULFILLED,UNFULFILLED,UNKNOWN} "
                            "(exhaustive), plus random in-domain trees up to the tier's leaf bound; every case goes through evaluate_requirement_constraint_tree "
                            "(node level: kind, state, hint, collected expression string) and a sample through requirement_constraint_evaluation; "
                            "non-trivial = distinct (expression, assignment) with at least one operator that is in-domain and valid")
    ctx.coverage["exhaustive"] = False
    ctx.notes["exhaustive_scope"] = "trees <= 3 leaves x all assignments: complete"
    for t, rho in cases[7000:7003]:
        ctx.sample({"expression": exprs.show(t), "rc": rho})
    return finish(ctx, assumptions=["leaf nodes are those the ConditionNodeBuilder builds from dict-based evaluators (env_ok)",
                                    "RC keys take FULFILLED/UNFULFILLED/UNKNOWN (the property's quantifier), hints have a text"])


def replay(path):
    return evalcorr.replay_eval(path)
