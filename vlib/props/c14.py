"""C14 -- soll_is_required is equivalent to rewriting SOLL at every level."""
import re

from vlib import evalimpl, valcorr
from vlib.runner import finish, prepare

LETTERS = re.compile(r"[A-Za-zſK]+")


def rewrite_soll(expr, word):
    """replace every SOLL modal mark of an AHB expression string (letter runs are indicators or operators)"""
    return LETTERS.sub(lambda m: word if m.group(0).upper() in ("S", "SOLL") else m.group(0), expr)


def run(ctx):
    built = prepare(ctx, ["Gen_logic", "Gen_ranges", "Gen_valmaps", "Gen_enums", "Gen_status"], ["Props/C14.vo", "Corr/Validate.vo", "Proofs/C13_gen.vo"])
    # SOLL-heavy trees: bias the modal marks
    saved = list(valcorr.MM)
    valcorr.MM[:] = ["Soll", "S", "soll", "s", "Muss", "M", "Kann", "k", "SOLL"]
    try:
        cases = valcorr.validation_cases(ctx, 50 if ctx.quick else 1200, unknown=0.03)
        # undetermined outcomes at many nodes: SOLL rewritten to MUSS aborts where SOLL read as KANN does not, so a flag lost on the way shows
        cases += valcorr.validation_cases(ctx, 50 if ctx.quick else 800, unknown=0.3)
        # a small scope enumerated completely: group > segment > free-text element, every indicator at every level, every outcome (also undetermined) at every level
        ind = ("Muss", "Soll", "Kann") if ctx.quick else ("Muss", "Soll", "Kann", "X", "s")
        cases += valcorr.small_scope_cases(ctx, [i + x for i in ("Muss", "Soll", "Kann") for x in ("", " [3]")], [i + x for i in ind for x in ("", " [2]")],
                                           [i + x for i in ind for x in ("", " [1]")], inputs=("abc",) if ctx.quick else ("abc", None))
    finally:
        valcorr.MM[:] = saved
    valcorr.check_val_correspondence(ctx, cases, "C14")
    # oracle: the equation itself on ahbicht
    n_soll = 0
    # both flags in flight at once on one event loop (an API of coroutines is called like this): each validation reports what it reports on its own
    alone = {}
    for c in cases:
        alone[(id(c["lines"]), repr(c["cer"]), repr(c["packages"]), c["soll"])] = c
    n_both = 0
    for c in cases:
        other = alone.get((id(c["lines"]), repr(c["cer"]), repr(c["packages"]), not c["soll"]))
        if not c["soll"] or other is None or n_both >= (60 if ctx.quick else 600):
            continue
        if not any(rewrite_soll(x, "Muss") != x for n in c["lines"] for x in valcorr.all_exprs(n)):
            continue
        n_both += 1
        valcorr.reset_cer(c)
        want = {True: valcorr.summarize(c["res"]), False: valcorr.summarize(other["res"])}
        for order, delay in (((True, False), 0), ((False, True), 0), ((True, False), 1), ((False, True), 2)):
            got = [valcorr.summarize(r) for r in valcorr.run_validation_both_flags(c["lines"], order, delay)]
            ctx.add_eval(2)
            bad = [i for i in (0, 1) if got[i] != want[order[i]]]
            if bad:
                i = bad[0]
                ctx.fail(f"soll-concurrent|{order}|{delay}|{str(valcorr.describe(c))[:300]}", dict(valcorr.describe(c), concurrent_flags=list(order), second_started_after_turns=delay, deviating_flag=order[i]),
                         f"soll_is_required={order[i]} reports what it reports when it runs alone: {want[order[i]][1] if want[order[i]][0] == 'exn' else want[order[i]][1][:8]}",
                         f"{got[i][1] if got[i][0] == 'exn' else got[i][1][:8]}", "oracle: the strict and the lenient validation of one AHB, in flight at the same time, each give their own result")
                break
    for c in cases:
        valcorr.reset_cer(c)
        word = "Muss" if c["soll"] else "Kann"
        has_soll = any(rewrite_soll(x, word) != x for n in c["lines"] for x in valcorr.all_exprs(n))
        lines2 = [valcorr.map_exprs(n, lambda x: rewrite_soll(x, word)) for n in c["lines"]]
        for flag2 in (True, False):
            want = valcorr.summarize(c["res"])
            got = valcorr.summarize(valcorr.run_validation(lines2, flag2))
            if want != got:
                ctx.fail(f"soll|{str(valcorr.describe(c))[:300]}", dict(valcorr.describe(c), rewritten=lines2, flag_for_rewritten=flag2),
                         f"soll_is_required={c['soll']} equals validating with every SOLL replaced by {word}: {want[1] if want[0] == 'exn' else want[1][:8]}",
                         f"{got[1] if got[0] == 'exn' else got[1][:8]}", "oracle: C14 equation on ahbicht")
                break
        # the same equation at the other two entry points: validate_segment_level (a group as root) and validate_segment (below every parent status)
        if has_soll and c["lines"]:
            g, g2 = c["lines"][0], lines2[0]
            want = valcorr.summarize(valcorr.run_segment_level(g, c["soll"]))
            for flag2 in (True, False):
                got = valcorr.summarize(valcorr.run_segment_level(g2, flag2))
                if want != got:
                    ctx.fail(f"soll-level|{str(valcorr.describe(c))[:300]}", dict(valcorr.describe(c), entry="validate_segment_level", root=g[1], rewritten=g2, flag_for_rewritten=flag2),
                             f"{want[1] if want[0] == 'exn' else want[1][:8]}", f"{got[1] if got[0] == 'exn' else got[1][:8]}", "oracle: C14 equation on ahbicht (validate_segment_level)")
                    break
            sg, sg2 = valcorr.first_segment(g), valcorr.first_segment(g2)
            if sg is not None:
                # ... and validate_segment_level with a SEGMENT as root
                want = valcorr.summarize(valcorr.run_segment_level(sg, c["soll"]))
                got = valcorr.summarize(valcorr.run_segment_level(sg2, not c["soll"]))
                ctx.add_eval(2)
                if want != got:
                    ctx.fail(f"soll-level-segment|{str(valcorr.describe(c))[:300]}", dict(valcorr.describe(c), entry="validate_segment_level", root_segment=sg[1], rewritten=sg2),
                             f"{want[1] if want[0] == 'exn' else want[1][:8]}", f"{got[1] if got[0] == 'exn' else got[1][:8]}", "oracle: C14 equation on ahbicht (validate_segment_level, segment as root)")
                for parent in (None, "IS_REQUIRED", "IS_OPTIONAL"):
                    want = valcorr.summarize(valcorr.run_segment(sg, parent, c["soll"]))
                    got = valcorr.summarize(valcorr.run_segment(sg2, parent, not c["soll"]))
                    ctx.add_eval(2)
                    if want != got:
                        ctx.fail(f"soll-segment|{parent}|{str(valcorr.describe(c))[:300]}", dict(valcorr.describe(c), entry="validate_segment", segment=sg[1], parent_status=parent, rewritten=sg2),
                                 f"{want[1] if want[0] == 'exn' else want[1][:8]}", f"{got[1] if got[0] == 'exn' else got[1][:8]}", "oracle: C14 equation on ahbicht (validate_segment)")
                        break
        n_soll += 1 if has_soll else 0
        ctx.add_eval(2)
    ctx.coverage["distinct_nontrivial"] = n_soll
    ctx.coverage["rule"] = ("SOLL-heavy random AHB trees (SOLL at groups, segments, free-text elements, value-pool entries, several modal marks) x random content evaluation "
                            "results x both flags; correspondence with the model as in C13; oracle: validate(t, flag) == validate(t with every SOLL token rewritten to Muss/Kann, either flag); "
                            "non-trivial = runs whose tree contains at least one SOLL indicator")
    ctx.sample({"lines": cases[0]["lines"], "soll": cases[0]["soll"]})
    return finish(ctx, assumptions=["as C13"])


def replay(path):
    return valcorr.replay_validation(path)
