"""
C19 -- JSON round trips.

Tie T: coq/Gen/Gen_schemas.v is regenerated from the source by vlib/gen_schemas.py (ast); the generated descriptors are
       evaluated in Coq (Corr/Json.schema_facts, cls_facts) and compared with the imported Schema._declared_fields /
       attrs.fields of the same classes (effective allow_none, required, load_default, dump_default, data_key, nested).
Tie C: for instances of every class (deterministic witnesses with every Optional attribute None, instances ahbicht itself
       produces, random ones) the model's dump is compared with json.loads(Schema().dumps(obj)) -- as ORDERED objects --
       and the model's load(dump) with Schema().loads(...) (loaded object or exception class); mutated JSON documents
       and partial dictionaries exercise the error paths, missing/None, load_default, dump_default, the hooks and the
       attrs constructors.  Trees: everything the parsers / the resolver return for generated expressions, through
       TreeSchema.
Oracle (implementation only): Schema().loads(Schema().dumps(x)) == x for every instance and tree; evaluating the
       round-tripped tree gives the same result as evaluating the original.
"""
import json
import uuid

from vlib import runner
from vlib.runner import finish, gbool, gopt, gtext, prepare

IMPORTS = "From Ahb Require Import Model.Prelude Model.Json Gen.Gen_schemas Corr.Json.\nOpen Scope N_scope."
KINDS = {"Boolean": 0, "String": 1, "UUID": 2, "List": 3, "Dict": 4, "Nested": 5}
NONASCII = ["äöü", "Straße ✓", "日本", "\U0001f600 ok", "á", "K"]


# ------------------------------------------------------------------ Gallina printing
class Unrepresentable(Exception):
    pass


def gjson(x):
    if x is None:
        return "JNull"
    if isinstance(x, bool):
        return f"(JBool {gbool(x)})"
    if isinstance(x, int):
        return f"(JNum ({x})%Z)"
    if isinstance(x, str):
        return f"(JStr {gtext(x)})"
    if isinstance(x, list):
        return "(JArr [" + "; ".join(gjson(e) for e in x) + "])"
    if isinstance(x, dict):
        return "(JObj [" + "; ".join(f"({gtext(k)}, {gjson(v)})" for k, v in x.items()) + "])"
    raise Unrepresentable(f"json {type(x).__name__}")


def gvalue(x):
    import enum

    import attrs

    if x is None:
        return "VNone"
    if isinstance(x, bool):
        return f"(VBool {gbool(x)})"
    if isinstance(x, uuid.UUID):
        return f"(VUuid {gtext(str(x))})"
    if isinstance(x, enum.Enum):
        return f"(VEnum {gtext(type(x).__name__)} {gtext(x.value)})"
    if isinstance(x, str):
        return f"(VStr {gtext(x)})"
    if isinstance(x, list):
        return "(VList [" + "; ".join(gvalue(e) for e in x) + "])"
    if isinstance(x, dict):
        if not all(isinstance(k, str) for k in x):
            raise Unrepresentable("dict key")
        return "(VDict [" + "; ".join(f"({gtext(k)}, {gvalue(v)})" for k, v in x.items()) + "])"
    if attrs.has(type(x)):
        return gobj(type(x), {a.name: getattr(x, a.name) for a in attrs.fields(type(x))})
    raise Unrepresentable(f"value {type(x).__name__}")


def gobj(cls, kwargs):
    return f"(VObj {gtext(cls.__name__)} [" + "; ".join(f"({gtext(k)}, {gvalue(v)})" for k, v in kwargs.items()) + "])"


def gltree(t):
    from lark import Token, Tree

    if isinstance(t, Tree):
        return f"(LTree {gtext(str(t.data))} [" + "; ".join(gltree(c) for c in t.children) + "])"
    if isinstance(t, Token) and isinstance(t.value, str) and isinstance(t.type, str):
        return f"(LTok {gtext(t.type)} {gtext(t.value)})"
    raise Unrepresentable(f"tree child {type(t).__name__}")


def glval(x):
    from lark import Token, Tree

    if isinstance(x, Tree):
        return f"(PTree {gtext(str(x.data))} [" + "; ".join(glval(c) for c in x.children) + "])"
    if isinstance(x, Token):
        if x.value is not None and not isinstance(x.value, str):
            raise Unrepresentable("token value")
        return f"(PTok {gtext(x.type)} {gopt(x.value, gtext)})"
    if isinstance(x, dict):
        return "(PRaw [" + "; ".join(f"({gtext(k)}, {gopt(v, glval)})" for k, v in x.items()) + "])"
    raise Unrepresentable(f"loaded {type(x).__name__}")


def gres(r, pr):
    """('ok', x) | ('exn', term) -> Gallina result"""
    return f"(Ok {pr(r[1])})" if r[0] == "ok" else f"(Exn {r[1]})"


# ------------------------------------------------------------------ replayable descriptions
def to_desc(x):
    import enum

    import attrs
    from lark import Token, Tree

    if isinstance(x, Tree):
        return {"__tree__": str(x.data), "children": [to_desc(c) for c in x.children]}
    if isinstance(x, Token):
        return {"__token__": x.type, "value": x.value}
    if x is None or isinstance(x, (bool, int)):
        return x
    if isinstance(x, uuid.UUID):
        return {"__uuid__": str(x)}
    if isinstance(x, enum.Enum):
        return {"__enum__": type(x).__name__, "value": x.value}
    if isinstance(x, str):
        return x
    if isinstance(x, list):
        return [to_desc(e) for e in x]
    if isinstance(x, dict):
        return {"__dict__": [[k, to_desc(v)] for k, v in x.items()]}
    if attrs.has(type(x)):
        return {"__cls__": type(x).__name__, "attrs": {a.name: to_desc(getattr(x, a.name)) for a in attrs.fields(type(x))}}
    return {"__repr__": repr(x)}


def from_desc(d, ns):
    from lark import Token, Tree

    if isinstance(d, list):
        return [from_desc(e, ns) for e in d]
    if isinstance(d, dict):
        if "__tree__" in d:
            return Tree(d["__tree__"], [from_desc(c, ns) for c in d["children"]])
        if "__token__" in d:
            return Token(d["__token__"], d["value"])
        if "__uuid__" in d:
            return uuid.UUID(d["__uuid__"])
        if "__enum__" in d:
            return ns[d["__enum__"]](d["value"])
        if "__dict__" in d:
            return {k: from_desc(v, ns) for k, v in d["__dict__"]}
        if "__cls__" in d:
            return ns[d["__cls__"]](**{k: from_desc(v, ns) for k, v in d["attrs"].items()})
        raise ValueError(f"cannot rebuild {d}")
    return d


def namespace():
    from ahbicht.json_serialization.tree_schema import TreeSchema
    from ahbicht.models import categorized_key_extract, condition_nodes, content_evaluation_result, enums, evaluation_results

    ns = {"TreeSchema": TreeSchema}
    for m in (enums, condition_nodes, content_evaluation_result, categorized_key_extract, evaluation_results):
        ns.update({k: v for k, v in vars(m).items() if isinstance(v, type)})
    return ns


def outcome(fn):
    from vlib import impl

    try:
        return ("ok", fn())
    except BaseException as e:  # pylint: disable=broad-except
        if isinstance(e, (KeyboardInterrupt, SystemExit, MemoryError)):
            raise
        return ("exn", impl.exc_class(e))


# ------------------------------------------------------------------ instance generators
def rtext(rng, none_ok=True):
    c = rng.random()
    if none_ok and c < 0.3:
        return None
    if c < 0.4:
        return ""
    if c < 0.6:
        return rng.choice(NONASCII)
    return rng.choice(["[501] Hinweis: 'ID der Messlokation'", "[901] U [902]", "Format nicht erfüllt", "x", "None", "null", "True"])


def gen_efc(rng, ns):
    return ns["EvaluatedFormatConstraint"](format_constraint_fulfilled=rng.random() < 0.5, error_message=rtext(rng))


def kspell(rng, n):
    """a condition key as ahbicht itself produces it from an expression: the digits as written, which may have leading zeros ([007] and [7] are two keys)"""
    return ("0" * rng.choice((1, 1, 2)) if rng.random() < 0.2 else "") + str(n)


def gen_cer(rng, ns):
    V = ns["ConditionFulfilledValue"]
    hints = {kspell(rng, rng.choice((501, 502, 555, 600, 899))): rtext(rng) for _ in range(rng.choice((0, 0, 1, 2, 3)))}
    fcs = {kspell(rng, rng.choice((901, 902, 950, 999))): gen_efc(rng, ns) for _ in range(rng.choice((0, 0, 1, 2)))}
    rcs = {kspell(rng, rng.choice((1, 2, 3, 45, 499, 2001))): rng.choice(list(V)) for _ in range(rng.choice((0, 1, 2, 4)))}
    pk = rng.choice((None, None, {}, {}, {"123P": "[1] U ([2] O [3])"}, {"1P": "[901]", "22P": rng.choice(NONASCII)}))
    ident = rng.choice((None, None, uuid.UUID(int=rng.getrandbits(128)), uuid.UUID(int=0)))
    return ns["ContentEvaluationResult"](hints=hints, format_constraints=fcs, requirement_constraints=rcs, packages=pk, id=ident)


def gen_cke(rng, ns):
    ks = lambda pool: [kspell(rng, rng.choice(pool)) for _ in range(rng.choice((0, 0, 1, 2, 3)))]
    return ns["CategorizedKeyExtract"](
        hint_keys=ks((501, 502, 600)), format_constraint_keys=ks((901, 902, 950)), requirement_constraint_keys=ks((1, 2, 3, 2001)),
        package_keys=[f"{rng.choice((1, 12, 123))}P" for _ in range(rng.choice((0, 0, 1, 2)))],
        time_condition_keys=[f"UB{rng.choice('123')}" for _ in range(rng.choice((0, 0, 1, 2)))])


def gen_rcer(rng, ns):
    tri = lambda: rng.choice((None, True, False))
    return ns["RequirementConstraintEvaluationResult"](requirement_constraints_fulfilled=tri(), requirement_is_conditional=tri(),
                                                       format_constraints_expression=rtext(rng), hints=rtext(rng))


def gen_fcer(rng, ns):
    return ns["FormatConstraintEvaluationResult"](format_constraints_fulfilled=rng.random() < 0.5, error_message=rtext(rng))


def gen_aeer(rng, ns):
    ind = rng.choice(list(ns["ModalMark"]) + list(ns["PrefixOperator"]))
    return ns["AhbExpressionEvaluationResult"](requirement_indicator=ind, requirement_constraint_evaluation_result=gen_rcer(rng, ns),
                                               format_constraint_evaluation_result=gen_fcer(rng, ns))


GENS = [("EvaluatedFormatConstraint", gen_efc), ("ContentEvaluationResult", gen_cer), ("CategorizedKeyExtract", gen_cke),
        ("RequirementConstraintEvaluationResult", gen_rcer), ("FormatConstraintEvaluationResult", gen_fcer),
        ("AhbExpressionEvaluationResult", gen_aeer)]
SCHEMA_OF = {c: c + "Schema" for c, _ in GENS}


def witnesses(ns):
    """deterministic instances: for every Optional attribute of every class one instance where it is None (the instance
    the model names when `compatible` fails), plus the all-None / all-set corners"""
    V = ns["ConditionFulfilledValue"]
    R, F, A = ns["RequirementConstraintEvaluationResult"], ns["FormatConstraintEvaluationResult"], ns["AhbExpressionEvaluationResult"]
    E, C, K = ns["EvaluatedFormatConstraint"], ns["ContentEvaluationResult"], ns["CategorizedKeyExtract"]
    out = [
        R(requirement_constraints_fulfilled=None, requirement_is_conditional=True, format_constraints_expression="[901]", hints="h"),
        R(requirement_constraints_fulfilled=True, requirement_is_conditional=None, format_constraints_expression="[901]", hints="h"),
        R(requirement_constraints_fulfilled=True, requirement_is_conditional=False, format_constraints_expression=None, hints="h"),
        R(requirement_constraints_fulfilled=False, requirement_is_conditional=True, format_constraints_expression="[901]", hints=None),
        R(requirement_constraints_fulfilled=None, requirement_is_conditional=None),
        F(format_constraints_fulfilled=True, error_message=None), F(format_constraints_fulfilled=False, error_message="m"),
        E(format_constraint_fulfilled=True, error_message=None), E(format_constraint_fulfilled=False, error_message="m"),
        C(hints={}, format_constraints={}, requirement_constraints={}, packages=None, id=None),
        C(hints={}, format_constraints={}, requirement_constraints={}, packages={}, id=uuid.UUID(int=1)),
        C(hints={"0501": "h"}, format_constraints={"0950": E(format_constraint_fulfilled=False, error_message="m")},
          requirement_constraints={"7": V.FULFILLED, "007": V.UNFULFILLED, "10": V.UNKNOWN, "9": V.FULFILLED}, packages=None, id=None),
        C(hints={"501": None, "502": "äöü"}, format_constraints={"901": E(format_constraint_fulfilled=True, error_message=None)},
          requirement_constraints={"1": V.FULFILLED, "2": V.UNFULFILLED, "3": V.UNKNOWN, "4": V.NEUTRAL}, packages={"123P": "[1] U [2]"}, id=None),
        K(hint_keys=[], format_constraint_keys=[], requirement_constraint_keys=[], package_keys=[], time_condition_keys=[]),
        K(hint_keys=["501"], format_constraint_keys=["901"], requirement_constraint_keys=["1", "2"], package_keys=["12P"], time_condition_keys=["UB1", "UB3"]),
    ]
    for ind in list(ns["ModalMark"]) + list(ns["PrefixOperator"]):
        out.append(A(requirement_indicator=ind, requirement_constraint_evaluation_result=R(requirement_constraints_fulfilled=None, requirement_is_conditional=None),
                     format_constraint_evaluation_result=F(format_constraints_fulfilled=True)))
    return out


def produced_by_ahbicht(ctx, ns):
    """results of ahbicht's own evaluation / key extraction for a few expressions and assignments"""
    import asyncio

    from vlib import evalimpl
    from ahbicht.expressions.ahb_expression_evaluation import evaluate_ahb_expression_tree
    from ahbicht.expressions.condition_expression_parser import extract_categorized_keys
    from ahbicht.expressions.expression_resolver import parse_expression_including_unresolved_subexpressions as resolve

    out = []
    exprs_ = ["Muss [1] U [2]", "Muss [1] O [2] Soll [3] Kann", "X [1][901]", "Muss [501]", "Kann", "Soll [2] X [3]", "Muss ([1] U [501])[902]",
              "M [1] U [2] S [3] K", "U [1]", "O [2] U [3][901]"]
    states = ("FULFILLED", "UNFULFILLED", "UNKNOWN")
    for e in exprs_:
        for _ in range(2 if ctx.quick else 8):
            rc = {k: ctx.rng.choice(states) for k in ("1", "2", "3")}
            fc = {k: (ctx.rng.random() < 0.5, ctx.rng.choice((None, "Fehler " + k))) for k in ("901", "902")}
            evalimpl.set_cer(rc=rc, hints={"501": "Hinweis 501"}, fc=fc)
            r = outcome(lambda: asyncio.run(evaluate_ahb_expression_tree(asyncio.run(resolve(e)))))
            if r[0] == "ok":
                out += [r[1], r[1].requirement_constraint_evaluation_result, r[1].format_constraint_evaluation_result]
    for e in ["[1] U [2]", "[1] U ([501] O [902])[901]", "[2001] X [3][950] U [555]", "[12P] U [1] O [UB1]", "[1]", "[007] U [8]", "[7] O [007]", "[12][0501]"]:
        r = outcome(lambda: asyncio.run(extract_categorized_keys(e)))
        if r[0] == "ok":
            out.append(r[1])
            if not r[1].package_keys and len(r[1].requirement_constraint_keys) + len(r[1].format_constraint_keys) <= 3:
                out += r[1].generate_possible_content_evaluation_results()[: (6 if ctx.quick else 40)]
    return out


# ------------------------------------------------------------------ mutations of JSON documents
def paths(js, pre=()):
    yield pre
    if isinstance(js, dict):
        for k, v in js.items():
            yield from paths(v, pre + (k,))
    elif isinstance(js, list):
        for i, v in enumerate(js):
            yield from paths(v, pre + (i,))


def mutate(rng, js):
    """one random edit of a JSON document (ASCII only; no non-canonical UUID spellings: outside the model)"""
    js = json.loads(json.dumps(js))
    ps = [p for p in paths(js) if p]
    if not ps:
        return rng.choice([None, [], "x", {"zz": 1}])
    p = rng.choice(ps)
    parent = js
    for k in p[:-1]:
        parent = parent[k]
    last = p[-1]
    cur = parent[last]
    ops = ["del", "null", "str", "one", "true", "arr", "obj", "unknown", "zero", "truestr"]
    if isinstance(cur, str):
        ops += ["lower", "lower", "P"]
    if isinstance(cur, dict) and cur:
        ops += ["badkey", "unknown_in"]
    op = rng.choice(ops)
    if op == "del":
        del parent[last]
    elif op == "null":
        parent[last] = None
    elif op == "str":
        parent[last] = "x"
    elif op == "one":
        parent[last] = 1
    elif op == "zero":
        parent[last] = 0
    elif op == "true":
        parent[last] = True
    elif op == "truestr":
        parent[last] = rng.choice(["true", "False", "yes", "N", "on", "0", "maybe"])
    elif op == "arr":
        parent[last] = rng.choice([[], ["a"], [None], [1]])
    elif op == "obj":
        parent[last] = rng.choice([{}, {"a": 1}, {"value": "MUSS"}])
    elif op == "unknown":
        if isinstance(parent, dict):
            parent["zz"] = 1
        else:
            parent.append("zz")
    elif op == "lower":
        parent[last] = cur.lower()
    elif op == "P":
        parent[last] = cur + "P"
    elif op == "badkey":
        k = next(iter(cur))
        cur[k + "x"] = cur.pop(k)
    elif op == "unknown_in":
        cur["zz"] = None
    return js


def partial_dicts(rng, obj):
    """dictionaries with a subset of the attributes of obj (dump_default, skipping of missing attributes)"""
    import attrs

    names = [a.name for a in attrs.fields(type(obj))]
    out = [{}]
    for _ in range(2):
        keep = [n for n in names if rng.random() < 0.5]
        out.append({n: getattr(obj, n) for n in keep})
    return out


# ------------------------------------------------------------------ tie T: facts of the imported objects
def imported_facts(S):
    """the same flat list Corr/Json.schema_facts computes from the generated descriptor"""
    from marshmallow import fields, missing

    out = []

    def one(name, f):
        kind = type(f).__name__
        if kind not in KINDS:
            raise Unrepresentable(f"field class {kind}")
        ld = 0 if f.load_default is missing else 1 if f.load_default is None else 2 if f.load_default == {} else None
        dd = 0 if f.dump_default is missing else 1 if f.dump_default is False else 2 if f.dump_default is True else None
        if ld is None or dd is None:
            raise Unrepresentable(f"default of {name}")
        nested = type(f.schema).__name__ if isinstance(f, fields.Nested) else ""
        key = f.data_key if f.data_key is not None else name
        out.append(f"({gtext(name)}, ({KINDS[kind]}, {gbool(f.allow_none)}, {gbool(f.required)}, {ld}, {dd}, {gtext(key)}, {gtext(nested)}))")
        if isinstance(f, fields.List):
            one(name + "[]", f.inner)
        if isinstance(f, fields.Mapping):
            if f.key_field is None or f.value_field is None:
                raise Unrepresentable(f"Dict {name} without key/value field")
            one(name + ".keys", f.key_field)
            one(name + ".values", f.value_field)

    for n, f in S._declared_fields.items():  # pylint: disable=protected-access
        if f.attribute is not None or f.load_only or f.dump_only or f.validators:
            raise Unrepresentable(f"{S.__name__}.{n}: attribute=/load_only/dump_only/validate are not modelled")
        one(n, f)
    if S.Meta is not __import__("marshmallow").Schema.Meta or S.opts.unknown != "raise" or S.opts.many:
        raise Unrepresentable(f"{S.__name__}: class Meta / options are not modelled")
    return "[" + "; ".join(out) + "]"


def imported_cls_facts(C):
    import typing

    import attrs

    out = []
    hints = typing.get_type_hints(C)
    for a in attrs.fields(C):
        t = hints[a.name]
        optional = typing.get_origin(t) is typing.Union and type(None) in typing.get_args(t) and len(typing.get_args(t)) == 2
        if a.default is not attrs.NOTHING and a.default is not None:
            raise Unrepresentable(f"{C.__name__}.{a.name}: default {a.default!r}")
        if a.converter is not None or not a.init or a.alias != a.name:
            raise Unrepresentable(f"{C.__name__}.{a.name}: converter / init=False / alias are not modelled")
        out.append(f"({gtext(a.name)}, ({gbool(optional)}, {gbool(a.default is None)}))")
    return "[" + "; ".join(out) + "]"


# ------------------------------------------------------------------ trees
def tree_sources(ctx):
    """(kind, expression, kwargs) for the parsers / the resolver"""
    from vlib import exprs, strings

    rng = ctx.rng
    out = []
    keys = ["1", "2", "3", "501", "901", "902"]
    for n in (1, 2):
        for t in exprs.trees(n, keys):
            out.append(("cond", exprs.to_string(t), {}))
    for _ in range(60 if ctx.quick else 1500):
        t = exprs.random_dom_tree(rng, rng.randint(2, 7), ["1", "2", "3", "2001"], ["501", "555"], ["901", "902", "950"])
        out.append(("cond", exprs.to_string(t), {}))
    for _ in range(80 if ctx.quick else 2000):
        out.append(("cond", strings.render_tokens(rng, strings.random_wf_tokens(rng, rng.randint(1, 6))), {}))
    marks = ["Muss", "Soll", "Kann", "M", "S", "K", "X", "O", "U", "muss", "x"]
    for _ in range(80 if ctx.quick else 2000):
        parts = []
        for _ in range(rng.choice((1, 1, 2, 3))):
            m = rng.choice(marks)
            if rng.random() < 0.8:
                kinds = ("key", "key", "key", "pkg", "time")
                toks = strings.random_wf_tokens(rng, rng.randint(1, 4))
                body = "".join(strings.random_atom(rng, kinds) if t == "A" else (t if t in "()" else f" {t} ") for t in toks)
                parts.append(f"{m} {body}" if rng.random() < 0.8 else f"{m}{body}")
            else:
                parts.append(m)
        out.append(("ahb", " ".join(parts), {"replace_time_conditions": rng.random() < 0.7, "resolve_packages": rng.random() < 0.3}))
    for e in ("[1P] U [2]", "[12P0..1] O [3]", "[1] U [UB1]", "[UB2] X [UB3]", "Muss [1P]", "Muss [UB1] U [12P]", "Muss"):
        for kw in ({}, {"resolve_packages": True}, {"replace_time_conditions": False}):
            out.append(("ahb", e, kw))
    return out


def tree_mutations(rng, js):
    """edits of a dumped tree document (token value empty / null, null child, missing type, unknown key, ...)"""
    js = json.loads(json.dumps(js))
    ps = [p for p in paths(js) if p]
    if not ps:
        return rng.choice([None, [], "x", {}, {"type": "x"}, {"children": []}, {"type": "x", "children": {}}])
    p = rng.choice(ps)
    parent = js
    for k in p[:-1]:
        parent = parent[k]
    last = p[-1]
    op = rng.choice(("del", "null", "empty", "str", "arr", "obj", "unknown", "one"))
    if op == "del":
        del parent[last]
    elif op == "null":
        parent[last] = None
    elif op == "empty":
        parent[last] = ""
    elif op == "str":
        parent[last] = "x"
    elif op == "one":
        parent[last] = 1
    elif op == "arr":
        parent[last] = []
    elif op == "obj":
        parent[last] = rng.choice([{}, {"token": None, "tree": None}, {"token": None}, {"tree": None}, {"type": "t", "children": []}])
    elif op == "unknown":
        if isinstance(parent, dict):
            parent["zz"] = 1
        else:
            parent.append({"token": {"value": "", "type": "T"}, "tree": None})
    return js


# ------------------------------------------------------------------ the check
def scramble(x, depth=0):
    """edits a loaded object in place, everywhere a caller (or ahbicht itself: FcEvaluator.evaluate_single_format_constraint assigns error_message)
    can: attributes of attrs instances are re-assigned, dicts and lists are changed through their own methods"""
    import enum

    import attrs

    if depth > 6:
        return
    if attrs.has(type(x)):
        for a in attrs.fields(type(x)):
            v = getattr(x, a.name)
            if attrs.has(type(v)) or isinstance(v, (dict, list)):
                scramble(v, depth + 1)
                continue
            if isinstance(v, bool):
                new = not v
            elif isinstance(v, enum.Enum):
                continue
            elif isinstance(v, str):
                new = v + " (edited)"
            elif v is None:
                new = "edited"
            else:
                continue
            try:
                setattr(x, a.name, new)
            except Exception:  # pylint: disable=broad-except  (frozen class / validating setter)
                pass
    elif isinstance(x, dict):
        for v in list(x.values()):
            scramble(v, depth + 1)
        for k in list(x)[:1]:
            del x[k]
        x["999"] = None
    elif isinstance(x, list):
        for v in x:
            scramble(v, depth + 1)
        x.append("999")


def history_round_trip(S, obj):
    """dump; load; edit the loaded object in place; load the same JSON again -> (equal to the original?, what the second load returned)"""
    text = S().dumps(obj)
    first = S().loads(text)
    scramble(first)
    second = outcome(lambda: S().loads(text))
    return (second[0] == "ok" and second[1] == obj), (repr(second[1])[:400] if second[0] == "ok" else f"raises {second[1]}")


def run(ctx):
    import asyncio

    from vlib import impl  # noqa: F401
    import ahbicht.content_evaluation  # noqa: F401  (import order: avoids the circular import of expression_resolver)
    from lark import Token, Tree
    from vlib import evalimpl, exprs
    from ahbicht.expressions.ahb_expression_evaluation import evaluate_ahb_expression_tree
    from ahbicht.expressions.condition_expression_parser import parse_condition_expression_to_tree
    from ahbicht.expressions.expression_resolver import parse_expression_including_unresolved_subexpressions as resolve
    from ahbicht.json_serialization.tree_schema import TreeSchema

    built = prepare(ctx, ["Gen_schemas"], ["Props/C19.vo", "Corr/Json.vo"])
    gen_ok = ctx.notes.get("gen_status", {}).get("Gen_schemas") == "ok"
    ns = namespace()
    rng = ctx.rng
    terms, meta = [], []

    def add(term, what, desc):
        terms.append(term)
        meta.append((what, desc))

    # ---------------- tie T: generated descriptors vs the imported schema / attrs objects
    n_facts = 0
    try:
        from vlib import gen_schemas

        facts = gen_schemas.facts()
        for s in facts["order"]:
            add(f"CFacts sch_{s} {imported_facts(ns[s])}", "tie T (schema fields)", s)
            n_facts += 1
        for c in facts["corder"]:
            add(f"CCls cls_{c} {imported_cls_facts(ns[c])}", "tie T (attrs class)", c)
            n_facts += 1
        for s, c in facts["class_of"].items():
            # the hook the translator recognised constructs the class the schema really returns
            inst = next((w for w in witnesses(ns) if type(w).__name__ == c), None)
            if inst is not None:
                back = outcome(lambda: ns[s]().load(ns[s]().dump(inst)))
                if back[0] == "ok" and type(back[1]).__name__ != c:
                    ctx.broke("tie T: post_load hook constructs another class than the translator recognised", f"{s}: {type(back[1]).__name__} vs {c}")
    except Exception as e:  # pylint: disable=broad-except
        if gen_ok:
            ctx.broke("tie T validation for Gen_schemas could not be set up", f"{type(e).__name__}: {e}")

    # ---------------- diagnosis by the model: Optional attributes whose field rejects null (why `compatible` is false)
    if gen_ok:
        try:
            pairs = list(facts["class_of"].items())
            res, _ = runner.eval_terms("C19", IMPORTS, [f"(compatible cls_{c} sch_{s}, missing_allow_none cls_{c} sch_{s})" for s, c in pairs], tag="diag")
            diag = {}
            for (s, c), r in zip(pairs, res or []):
                import re

                names = ["".join(chr(int(x)) for x in m.split(";")) for m in re.findall(r"\[(\d+(?:; ?\d+)*)\]", r)]
                diag[c] = {"compatible": r.strip().startswith("(true"), "optional_attributes_whose_field_rejects_null": names}
                if not diag[c]["compatible"]:
                    ctx.broke(f"model: class {c} is not compatible with {s} (C19_compatible_{c} cannot hold)",
                              "Optional attributes whose field rejects null: " + (", ".join(names) or "none at the top level (a nested schema is incompatible)"))
            ctx.notes["compatibility"] = diag
        except Exception as e:  # pylint: disable=broad-except
            ctx.notes["compatibility"] = f"not evaluated: {type(e).__name__}: {e}"

    # ---------------- instances
    insts = list(witnesses(ns))
    n_wit = len(insts)
    insts += produced_by_ahbicht(ctx, ns)
    n_own = len(insts) - n_wit
    per_class = 40 if ctx.quick else 2000
    for cname, g in GENS:
        for _ in range(per_class):
            insts.append(g(rng, ns))
    n_none = 0
    seen = set()
    n_distinct = 0
    # objects that share an id but not their content, one after the other (the evaluatable data of one message, evaluated again after it changed)
    V_, C_ = ns["ConditionFulfilledValue"], ns["ContentEvaluationResult"]
    same_id = uuid.UUID(int=7)
    insts = [C_(hints={}, format_constraints={}, requirement_constraints={"1": V_.UNKNOWN, "2": st}, packages=None, id=same_id) for st in (V_.UNKNOWN, V_.FULFILLED, V_.UNFULFILLED)] + insts
    reused = {}   # ONE schema instance per class, used for every object of the run (the evaluators keep their schema too)
    for obj in insts:
        cname = type(obj).__name__
        S = ns[SCHEMA_OF[cname]]
        if cname not in reused:
            reused[cname] = S()
        r2 = outcome(lambda: reused[cname].loads(reused[cname].dumps(obj)))
        if r2[0] != "ok" or r2[1] != obj:
            ctx.fail(f"reused-schema|{cname}|{json.dumps(to_desc(obj), sort_keys=True, ensure_ascii=False)}", {"schema": S.__name__, "object": to_desc(obj),
                                                                                                          "history": "one schema instance dumps and loads every object of the run, this one after the others"},
                     "loads(dumps(x)) == x on a schema instance that was used before", repr(r2[1])[:400] if r2[0] == "ok" else f"raises {r2[1]}",
                     "oracle: round trip on a schema instance that has loaded other objects before")
        desc = to_desc(obj)
        key = f"{cname}|{json.dumps(desc, sort_keys=True, ensure_ascii=False)}"
        first = key not in seen
        seen.add(key)
        text = outcome(lambda: S().dumps(obj))
        d = ("ok", json.loads(text[1])) if text[0] == "ok" else text
        back = outcome(lambda: S().loads(text[1])) if text[0] == "ok" else text
        # oracle
        if first:
            if back[0] != "ok":
                ctx.fail(key, {"schema": S.__name__, "object": desc}, "loads(dumps(x)) == x", f"raises {back[1]}" + (f" on {text[1]}" if text[0] == "ok" else " in dumps"),
                         "oracle: round trip of a generated instance")
            elif back[1] != obj:
                ctx.fail(key, {"schema": S.__name__, "object": desc}, "loads(dumps(x)) == x", repr(back[1])[:400], "oracle: round trip of a generated instance")
            if back[0] == "ok" and back[1] == obj:
                # the round trip does not depend on what happened to objects loaded earlier (loaded objects are the caller's own)
                hok, hobs = history_round_trip(S, obj)
                if not hok:
                    ctx.fail("history|" + key, {"schema": S.__name__, "object": desc, "history": "dumps(x); y = loads(..); y edited in place; loads(..) again"},
                             "the second loads(dumps(x)) == x as well", hobs, "oracle: round trip after an object loaded earlier from the same JSON was edited in place")
            if getattr(obj, "requirement_constraints_fulfilled", 0) is None or getattr(getattr(obj, "requirement_constraint_evaluation_result", 0), "requirement_constraints_fulfilled", 0) is None:
                n_none += 1
            n_distinct += 1
            try:
                add(f"CInst sch_{S.__name__} {gvalue(obj)} {gres(d, gjson)} {gres(back, gvalue)}", "instance: dump / load(dump)", desc)
                add(f"CHas cls_{cname} {gvalue(obj)} true", "instance satisfies has_ty (hypothesis of C19_generic)", desc)
            except Unrepresentable as e:
                ctx.broke("an observation is outside the modelled universe", f"{e}: {desc}")
            if d[0] == "ok":
                for _ in range(2 if ctx.quick else 3):
                    m = mutate(rng, d[1])
                    lr = outcome(lambda: S().load(m))
                    try:
                        add(f"CLoad sch_{S.__name__} {gjson(m)} {gres(lr, gvalue)}", "load of a mutated document", {"schema": S.__name__, "json": m})
                    except Unrepresentable:
                        pass
            if rng.random() < (0.5 if ctx.quick else 0.2):
                for pd in partial_dicts(rng, obj):
                    dr = outcome(lambda: S().dump(pd))
                    try:
                        add(f"CDump sch_{S.__name__} {gvalue(pd)} {gres(dr, gjson)}", "dump of a partial dictionary", {"schema": S.__name__, "dict": to_desc(pd)})
                    except Unrepresentable:
                        pass
    # constructor rejections: has_ty must be false whenever the attrs constructor refuses the attribute values
    import attrs

    n_rej = 0
    for cname, g in GENS:
        C = ns[cname]
        for _ in range(6 if ctx.quick else 60):
            obj = g(rng, ns)
            kw = {a.name: getattr(obj, a.name) for a in attrs.fields(C)}
            a = rng.choice(list(kw))
            kw[a] = rng.choice(["x", 1 == 1, None, [], {}, ["12"], {"12": "x"}, {"k": None}, uuid.UUID(int=3)])
            r = outcome(lambda: C(**kw))
            if r[0] == "exn":
                try:
                    add(f"CHas cls_{cname} {gobj(C, kw)} false", "constructor rejects => has_ty false", {"class": cname, "attrs": to_desc(kw)})
                    n_rej += 1
                except Unrepresentable:
                    pass

    # ---------------- trees
    n_trees = n_tree_nontrivial = n_unrep = n_eval = n_not_ok = 0
    tseen = set()
    for kind, s, kw in tree_sources(ctx):
        pkgs = {"1P": "[1] U [2]", "12P": "[3]", "123P": "[1] O [901]", "2P": "[2]", "7P": "[7]", "45P": "[45]", "499P": "[499]", "501P": "[501]",
                "902P": "[902]", "999P": "[999]", "2001P": "[2001]"}
        evalimpl.set_cer(packages=pkgs)
        if kind == "cond":
            pr = outcome(lambda: parse_condition_expression_to_tree(s))
        else:
            pr = outcome(lambda: asyncio.run(resolve(s, **kw)))
        if pr[0] != "ok":
            continue
        tree = pr[1]
        tkey = f"tree|{kind}|{s}|{sorted(kw.items())}"
        if tkey in tseen:
            continue
        tseen.add(tkey)
        n_trees += 1
        if not all(isinstance(v, (Tree, Token)) and (isinstance(v, Tree) or len(v.value) > 0) for st in tree.iter_subtrees() for v in st.children):
            n_not_ok += 1
        text = outcome(lambda: TreeSchema().dumps(tree))
        back = outcome(lambda: TreeSchema().loads(text[1])) if text[0] == "ok" else text
        inp = {"entry": "parse_condition_expression_to_tree" if kind == "cond" else "parse_expression_including_unresolved_subexpressions", "expression": s, "kwargs": kw}
        if back[0] != "ok":
            ctx.fail(tkey, inp, "TreeSchema().loads(TreeSchema().dumps(t)) == t", f"raises {back[1]}", "oracle: round trip of a parsed tree")
        elif back[1] != tree:
            ctx.fail(tkey, inp, "TreeSchema().loads(TreeSchema().dumps(t)) == t", repr(back[1])[:400], "oracle: round trip of a parsed tree")
        else:
            # evaluating the round-tripped tree gives the same result
            ks = sorted({str(t) for t in tree.scan_values(lambda v: isinstance(v, Token) and v.type == "CONDITION_KEY")})
            rc = {k: rng.choice(("FULFILLED", "UNFULFILLED", "UNKNOWN")) for k in ks if exprs.kind(k) == "rc"}
            hints = {k: f"Hinweis {k}" for k in ks if exprs.kind(k) == "hint"}
            fc = {k: (rng.random() < 0.5, None) for k in ks if exprs.kind(k) == "fc"}
            for k in ("931", "932", "933", "934", "935"):
                fc.setdefault(k, (True, None))
            evalimpl.set_cer(rc=rc, hints=hints, fc=fc, packages=pkgs)
            if str(tree.data) == "ahb_expression":
                ev = lambda t: asyncio.run(evaluate_ahb_expression_tree(t))
            else:
                ev = evalimpl.rc_evaluation
            r1, r2 = outcome(lambda: ev(tree)), outcome(lambda: ev(back[1]))
            n_eval += 1
            if r1 != r2:
                ctx.fail(tkey + "|eval", dict(inp, rc=rc, fc={k: list(v) for k, v in fc.items()}, hints=hints), f"evaluation of the original: {r1}", f"evaluation of the round-tripped tree: {r2}",
                         "oracle: evaluating the round-tripped tree gives the same result")
        try:
            d = json.loads(text[1]) if text[0] == "ok" else None
            if d is not None:
                add(f"CTree {gltree(tree)} {gjson(d)} {gres(back, glval)}", "tree: dump / load(dump)", inp)
                if len(tree.children) > 1 or any(isinstance(c, Tree) for c in tree.children):
                    n_tree_nontrivial += 1
                for _ in range(1 if ctx.quick else 2):
                    m = tree_mutations(rng, d)
                    lr = outcome(lambda: TreeSchema().load(m))
                    try:
                        add(f"CTLoad {gjson(m)} {gres(lr, glval)}", "TreeSchema.load of a mutated document", {"json": m})
                    except Unrepresentable:
                        pass
        except Unrepresentable:
            n_unrep += 1
    # hand-made boundary trees (not produced by the parsers; correspondence only): empty token values, empty trees
    for t in (Tree("x", [Token("A", "")]), Tree("x", []), Tree("", [Token("", "a")]), Tree("x", [Tree("y", [Token("A", ""), Token("B", "b")]), Token("C", "c")]),
              Token("A", "b")):
        text = outcome(lambda: TreeSchema().dumps(t))
        back = outcome(lambda: TreeSchema().loads(text[1])) if text[0] == "ok" else text
        try:
            add(f"CTree {gltree(t)} {gjson(json.loads(text[1]))} {gres(back, glval)}", "tree: dump / load(dump) (hand-made boundary)", to_desc(t))
        except Unrepresentable:
            pass
    if n_not_ok:
        ctx.broke("parsed trees that violate tree_ok (hypothesis of C19_tree): a token with an empty value or a child that is neither Tree nor Token", str(n_not_ok))
    if n_unrep:
        ctx.broke("parsed trees with children that are neither Tree nor Token (outside ltree)", str(n_unrep))

    # ---------------- evaluate everything in Coq
    n, bad, err = (0, [], None)
    if gen_ok:
        for attempt in range(3):
            n, bad, err = runner.run_case_files("C19", IMPORTS, "jcase", "jcheck", terms, shard=150)
            if err and ("Cannot find a physical path" in err or "Compiled library" in err or "bad version" in err) and attempt < 2:
                # a concurrent `make clean` / rebuild of another check removed the compiled model under the shards: rebuild, retry
                runner.coq_make(["Props/C19.vo", "Corr/Json.vo"])
                continue
            break
        if err:
            ctx.broke("correspondence could not be evaluated in Coq", err)
        for i in bad[:20]:
            what, desc = meta[i]
            if what.startswith("tie T"):
                ctx.broke(f"translator validation mismatch ({what}): generated descriptor differs from the imported object", str(desc))
            else:
                ctx.broke(f"correspondence mismatch ({what}): model and marshmallow/ahbicht differ", json.dumps(desc, ensure_ascii=False, default=str)[:1500] + " || " + terms[i][:1500])
    else:
        ctx.broke("correspondence not evaluated: Gen_schemas was not generated", "")
    by_kind = {}
    for w, _ in meta:
        by_kind[w] = by_kind.get(w, 0) + 1
    import re

    outcomes = {}
    for (w, _), term in zip(meta, terms):
        if w.startswith("tie T") or w.startswith("instance satisfies") or w.startswith("constructor"):
            continue
        last = re.findall(r"\(Exn (\w+)\)$", term)
        k = ("raises " + last[0]) if last else "returns"
        outcomes.setdefault(w, {}).setdefault(k, 0)
        outcomes[w][k] += 1
    ctx.notes["observed_outcomes"] = outcomes
    ctx.notes["correspondence"] = {"cases": n, "mismatches": len(bad), "by_kind": by_kind}
    ctx.notes["translator_validation"] = {"cases": n_facts, "mismatches": sum(1 for i in bad if meta[i][0].startswith("tie T"))}
    ctx.notes["inputs"] = {"witness_instances": n_wit, "instances_produced_by_ahbicht": n_own, "random_instances_per_class": per_class,
                           "distinct_instances": n_distinct, "instances_with_undetermined_outcome": n_none, "constructor_rejections": n_rej,
                           "parsed_trees": n_trees, "parsed_trees_violating_tree_ok": n_not_ok, "trees_evaluated_twice": n_eval}
    ctx.add_eval(n)
    ctx.coverage["distinct_nontrivial"] = n_distinct + n_tree_nontrivial
    ctx.coverage["rule"] = ("instances: deterministic witnesses (every Optional attribute None), results of ahbicht's own evaluation / key extraction, random instances of the "
                            "six classes (None outcomes, empty dicts, non-ASCII texts, UUID or None, packages None/{}); each distinct instance: ordered JSON of Schema().dumps vs the "
                            "model's dump, Schema().loads vs the model's load, has_ty; mutated documents and partial dictionaries for the error paths / defaults / hooks; "
                            "trees: parse_condition_expression_to_tree and parse_expression_including_unresolved_subexpressions on generated expressions through TreeSchema; "
                            "non-trivial = distinct instances + distinct trees with an operator or several parts")
    if terms:
        ctx.sample({"case": meta[min(len(meta) - 1, n_facts + 1)][0], "input": meta[min(len(meta) - 1, n_facts + 1)][1]})
        ctx.sample({"term": terms[min(len(terms) - 1, n_facts)][:600]})
    ctx.trusted += ["marshmallow 3.22 (Schema/_deserialize/_serialize, Field, Nested, List, Mapping, Boolean, String, UUID, hooks), attrs validators, lark Tree/Token "
                    "equality and truthiness, json.dumps/loads: modelled in Model/Json.v and tied by this correspondence only"]
    return finish(ctx, assumptions=[
        "marshmallow / attrs / lark behaviour is modelled (Model/Json.v), validated by the correspondence of this run only",
        "instances are those whose attributes have the declared types and pass the attrs validators (has_ty); package keys with non-ASCII digits, "
        "non-canonical UUID spellings and floats are outside the model",
        "tree_ok (every token value non-empty) is a hypothesis of C19_tree; it is observed for every tree the parsers returned in this run (oracle), not proved from the parser model"])


def replay(path):
    import asyncio

    from vlib import impl  # noqa: F401
    import ahbicht.content_evaluation  # noqa: F401
    from ahbicht.expressions.condition_expression_parser import parse_condition_expression_to_tree
    from ahbicht.expressions.expression_resolver import parse_expression_including_unresolved_subexpressions as resolve
    from ahbicht.json_serialization.tree_schema import TreeSchema

    r = json.load(open(path, encoding="utf-8"))
    inp = r["input"]
    ns = namespace()
    print("expected:", r["expected"], "| recorded observation:", r["observed"])
    if "object" in inp:
        S = ns[inp["schema"]]
        obj = from_desc(inp["object"], ns)
        text = S().dumps(obj)
        print("object :", obj)
        print("dumps  :", text)
        back = outcome(lambda: S().loads(text))
        print("loads  :", back[1] if back[0] == "ok" else "raises " + back[1])
        ok = back[0] == "ok" and back[1] == obj
        if ok and "history" in inp:
            ok, hobs = history_round_trip(S, obj)
            print("history:", inp["history"], "->", hobs)
    else:
        from vlib import evalimpl

        evalimpl.set_cer(rc=inp.get("rc"), hints=inp.get("hints"), fc={k: tuple(v) for k, v in inp.get("fc", {}).items()})
        if inp["entry"] == "parse_condition_expression_to_tree":
            tree = parse_condition_expression_to_tree(inp["expression"])
        else:
            tree = asyncio.run(resolve(inp["expression"], **inp.get("kwargs", {})))
        text = TreeSchema().dumps(tree)
        back = outcome(lambda: TreeSchema().loads(text))
        print("tree   :", tree)
        print("dumps  :", text)
        print("loads  :", back[1] if back[0] == "ok" else "raises " + back[1])
        ok = back[0] == "ok" and back[1] == tree
    print("round trip holds now:", ok)
    return 0 if ok else 1
