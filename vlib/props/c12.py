"""
C12 -- independence of the completion order of asynchronous evaluators.

Tie C: ahbicht is run with user-supplied RC/FC evaluators, a hints provider and a package resolver that
`await asyncio.sleep(0)` a prescribed number of times (the "yield vector", one entry per awaitable call); FC evaluators and
the evaluators used under is_valid_expression read their ContextVar AFTER yielding. The same skeleton with the same
numbers is evaluated in the model (Model/Async.v: `den`, and `run_to_end` for explicit schedules) and compared inside Coq
(Corr/Async.v: async_check). Oracle (implementation only): every yield vector gives the result of the all-zero vector,
and every evaluation that takes its data from context-local storage sees only its own data.
"""
import asyncio
import itertools
import json
from collections import Counter
from contextvars import ContextVar

from vlib import runner
from vlib.runner import finish, gbool, gtext, prepare

IMPORTS = "From Ahb Require Import Model.Prelude Model.Async Proofs.C12_async Corr.Async."
CFV = {"UNFULFILLED": 0, "FULFILLED": 1, "UNKNOWN": 2, "NEUTRAL": 3}
RC_KEYS = [str(i) for i in range(1, 13)]
FC_KEYS = [str(i) for i in range(901, 913)]
EXN = {"NotImpl": NotImplementedError, "ValueErr": ValueError, "KeyErr": KeyError}
LAST = 2519  # n mod r = r-1 for every r <= 10: "always the rightmost runnable task"

ASSUMPTIONS = [
    "partial: the real event loop (FIFO ready queue, wake-ups) is modelled only as 'any runnable task may step' (every real schedule is a steps-sequence of the model, not conversely)",
    "modelled, not verified: asyncio.gather wraps coroutines into tasks, every task copies the current contextvars.Context at creation, results are delivered in argument order (tied by the correspondence)",
    "A-evaluators-pure: user evaluators / hint providers / package resolvers are deterministic functions of (key, task-local context) without shared mutable state",
    "I-C12: when several awaitables raise, which exception propagates is schedule dependent by design of gather (model: the leftmost); only the exception class is compared and scenarios raise one class only",
    "correspondence harness: the j-th call for a key within one gather is taken to be the j-th occurrence of the key (tasks start in creation order)",
]


# ------------------------------------------------------------------ Gallina values
class Exn:
    def __init__(self, name):
        self.name = name

    def __eq__(self, o):
        return isinstance(o, Exn) and o.name == self.name

    def __repr__(self):
        return f"Exn({self.name})"


def gv(x):
    """python value -> Gallina term of type val"""
    if x is None:
        return "VNone"
    if isinstance(x, Exn):
        return f"(VE {x.name})"
    if isinstance(x, bool):
        return f"(VB {gbool(x)})"
    if isinstance(x, int):
        return f"(VN {x}%N)"
    if isinstance(x, str):
        return f"(VT {gtext(x)})"
    if isinstance(x, dict):
        return "(VL [" + "; ".join(f"VL [VT {gtext(k)}; {gv(v)}]" for k, v in x.items()) + "])"
    if isinstance(x, (list, tuple)):
        return "(VL [" + "; ".join(gv(v) for v in x) + "])"
    raise TypeError(f"gv: {x!r}")


def gnat_list(xs):
    return "[" + "; ".join(str(int(x)) for x in xs) + "]"


def gaws(aws):
    """[(yields, value)] -> list (nat * val)"""
    return "[" + "; ".join(f"({n}, {gv(v)})" for n, v in aws) + "]"


def gkeys(keys):
    return "[" + "; ".join(gtext(k) for k in keys) + "]"


def gslots(slots):
    """[('plain', v) | ('aw', n, v)]"""
    return "[" + "; ".join(f"inl {gv(s[1])}" if s[0] == "plain" else f"inr ({s[1]}, {gv(s[2])})" for s in slots) + "]"


def gcase(case, scheds, obs):
    return f"({case}, [{'; '.join(gnat_list(s) for s in scheds)}], {gv(obs)})"


# ------------------------------------------------------------------ the harness (ahbicht side)
class Harness:
    """user-supplied evaluators whose suspensions are prescribed per awaitable call"""

    def __init__(self):
        from vlib import impl
        import inject
        from efoli import EdifactFormat, EdifactFormatVersion

        from ahbicht.content_evaluation.evaluationdatatypes import EvaluatableData, EvaluatableDataProvider
        from ahbicht.content_evaluation.fc_evaluators import FcEvaluator, text_to_be_evaluated_by_format_constraint
        from ahbicht.content_evaluation.rc_evaluators import RcEvaluator
        from ahbicht.content_evaluation.token_logic_provider import SingletonTokenLogicProvider, TokenLogicProvider
        from ahbicht.expressions.hints_provider import HintsProvider
        from ahbicht.expressions.package_expansion import PackageResolver
        from ahbicht.models.condition_nodes import ConditionFulfilledValue, EvaluatedFormatConstraint
        from ahbicht.models.mapping_results import PackageKeyConditionExpressionMapping

        self.impl = impl
        self.CFVE = ConditionFulfilledValue
        self.text_var = text_to_be_evaluated_by_format_constraint
        self.cer_var = ContextVar("verif_cer", default=None)
        fmt, ver = EdifactFormat.UTILMD, EdifactFormatVersion.FV2210
        self.fmt = fmt
        self.default_data = EvaluatableData(body=None, edifact_format=fmt, edifact_format_version=ver)
        H = self
        self.reset()

        class HRc(RcEvaluator):
            edifact_format, edifact_format_version = fmt, ver

            def _get_default_context(self):
                # a real context, a fresh one per call: the evaluation methods below narrow the scope of the context they are handed and rely on it
                # after they suspended (the documented use of EvaluationContext: "pass by reference", so an evaluator works on its own)
                from ahbicht.content_evaluation.evaluationdatatypes import EvaluationContext

                return EvaluationContext(scope=None)

            async def evaluate_conditions(self, condition_keys, evaluatable_data, condition_keys_with_context=None):
                keys = list(condition_keys)
                try:
                    r = await super().evaluate_conditions(condition_keys, evaluatable_data, condition_keys_with_context)
                except BaseException as e:  # pylint: disable=broad-except
                    H.sites.append(("rc", keys, Exn(impl.exc_class(e)), H.cer_tag(evaluatable_data.body)))
                    raise
                H.sites.append(("rc", keys, {k: CFV[v.name] for k, v in r.items()}, H.cer_tag(evaluatable_data.body)))
                return r

        def make_rc(k):
            async def ev(self, evaluatable_data, context):
                mine = f"$.bedingung[{k}]"
                if context is not None:
                    context.scope = mine
                r = await H.rc_call(k, evaluatable_data)
                if context is not None and context.scope != mine:
                    H.log.append(("rc-context", k, mine, context.scope))   # somebody else wrote to the context this evaluation was handed
                return r

            return ev

        for k in RC_KEYS:
            setattr(HRc, f"evaluate_{k}", make_rc(k))

        class HFc(FcEvaluator):
            edifact_format, edifact_format_version = fmt, ver

            async def evaluate_format_constraints(self, condition_keys):
                keys = list(condition_keys)
                t = H.text_var.get()
                try:
                    r = await super().evaluate_format_constraints(condition_keys)
                except BaseException as e:  # pylint: disable=broad-except
                    H.sites.append(("fc", keys, Exn(impl.exc_class(e)), t))
                    raise
                H.sites.append(("fc", keys, {k: (v.format_constraint_fulfilled, v.error_message) for k, v in r.items()}, t))
                return r

        def make_fc(k):
            async def ev(self, entered_input):
                j = await H.nap(("fc", k, entered_input))
                t2 = H.text_var.get()
                exp = H.fc_expected.get(k)
                if isinstance(exp, Exn):
                    raise EXN[exp.name]("harness")
                if isinstance(exp, list):
                    exp = exp[min(j, len(exp) - 1)]
                ok = t2 == exp
                H.log.append(("fc", k, entered_input, t2, ok))
                return EvaluatedFormatConstraint(format_constraint_fulfilled=ok, error_message=None if ok else f"[{k}] sah {t2!r} statt {exp!r}")

            return ev

        for k in FC_KEYS:
            setattr(HFc, f"evaluate_{k}", make_fc(k))

        class HHints(HintsProvider):
            edifact_format, edifact_format_version = fmt, ver

            async def get_hints(self, condition_keys, raise_key_error=True):
                keys = list(condition_keys)
                try:
                    r = await super().get_hints(condition_keys, raise_key_error)
                except BaseException as e:  # pylint: disable=broad-except
                    H.sites.append(("hints", keys, Exn(impl.exc_class(e)), raise_key_error))
                    raise
                H.sites.append(("hints", keys, {k: v.hint for k, v in r.items()}, raise_key_error))
                return r

            async def get_hint_text(self, condition_key):
                return await H.hint_call(condition_key)

        class HPkg(PackageResolver):
            edifact_format, edifact_format_version = fmt, ver

            async def get_condition_expression(self, package_key):
                await H.nap(("pkg", package_key))
                expr = H.pkg.get(package_key)
                if isinstance(expr, Exn):
                    raise EXN[expr.name]("harness")
                return PackageKeyConditionExpressionMapping(package_key=package_key, package_expression=expr, edifact_format=fmt)

        self.rc_ev, self.fc_ev, self.hints_pr, self.pkg_res = HRc(), HFc(), HHints(), HPkg()

        # evaluators of ANOTHER format version, registered next to the ones in use (the designed way to serve several format versions from one
        # provider) and created after them: they are never to be asked -- an answer of theirs is recorded as a leak and is deliberately wrong
        other = EdifactFormatVersion.FV2304

        class OtherRc(RcEvaluator):
            edifact_format, edifact_format_version = fmt, other

            def _get_default_context(self):
                return None

        class OtherFc(FcEvaluator):
            edifact_format, edifact_format_version = fmt, other

        def other_rc(k):
            async def ev(self, evaluatable_data, context):  # pylint: disable=unused-argument
                H.log.append(("other-version", k, "evaluator of the format version in use", "evaluator of FV2304"))
                return ConditionFulfilledValue.UNFULFILLED if H.rc.get(k) == "FULFILLED" else ConditionFulfilledValue.FULFILLED

            return ev

        def other_fc(k):
            async def ev(self, entered_input):
                H.log.append(("other-version", k, "evaluator of the format version in use", "evaluator of FV2304"))
                return EvaluatedFormatConstraint(format_constraint_fulfilled=H.fc_expected.get(k) != entered_input, error_message=None)

            return ev

        for k in RC_KEYS:
            setattr(OtherRc, f"evaluate_{k}", other_rc(k))
        for k in FC_KEYS:
            setattr(OtherFc, f"evaluate_{k}", other_fc(k))
        self.other_rc_ev, self.other_fc_ev = OtherRc(), OtherFc()

        def provider():
            cer = H.cer_var.get()
            if cer is None:
                return H.default_data
            return EvaluatableData(body=cer, edifact_format=fmt, edifact_format_version=ver)

        self.provider = SingletonTokenLogicProvider([self.rc_ev, self.fc_ev, self.hints_pr, self.pkg_res, self.other_rc_ev, self.other_fc_ev])
        self.TokenLogicProvider = TokenLogicProvider

        def cfg(binder):
            binder.bind(TokenLogicProvider, self.provider)
            binder.bind_to_provider(EvaluatableDataProvider, provider)

        inject.clear_and_configure(cfg)

    # -- per-run state
    def reset(self, rc=None, hints=None, fc_expected=None, pkg=None, yields=None, cer_tags=None):
        self.rc = rc or {}
        self.hints = hints or {}
        self.fc_expected = fc_expected or {}
        self.pkg = pkg or {}
        self.yields = yields if yields is not None else {}
        self.cer_tags = cer_tags  # id(cer) -> (expression index, cer index)   (is_valid mode)
        self.calls = Counter()
        self.log = []
        self.sites = []

    def cer_tag(self, cer):
        if cer is None or self.cer_tags is None:
            return None
        return self.cer_tags.get(id(cer))

    async def nap(self, tag):
        j = self.calls[tag]
        self.calls[tag] += 1
        lst = self.yields.get(tag) or [0]
        for _ in range(lst[min(j, len(lst) - 1)]):
            await asyncio.sleep(0)
        return j

    async def rc_call(self, k, data):
        if self.cer_tags is not None:  # is_valid mode: answer from the ContextVar-backed store, read after yielding
            tag0 = self.cer_tag(data.body)
            await self.nap(("rc", k, tag0))
            cer1 = self.cer_var.get()
            self.log.append(("rc", k, tag0, self.cer_tag(cer1)))
            return cer1.requirement_constraints[k]
        j = await self.nap(("rc", k))
        v = self.rc[k]
        if isinstance(v, list):
            v = v[min(j, len(v) - 1)]
        if isinstance(v, Exn):
            raise EXN[v.name]("harness")
        return self.CFVE[v]

    async def hint_call(self, k):
        if self.cer_tags is not None:
            tag0 = self.cer_tag(self.cer_var.get())
            await self.nap(("hint", k, tag0))
            cer1 = self.cer_var.get()
            self.log.append(("hint", k, tag0, self.cer_tag(cer1)))
            return cer1.hints.get(k)
        j = await self.nap(("hint", k))
        v = self.hints.get(k)
        if isinstance(v, list):
            v = v[min(j, len(v) - 1)]
        if isinstance(v, Exn):
            raise EXN[v.name]("harness")
        return v

    def run(self, coro_fn):
        """fresh event loop per run (left-over tasks of a failed gather are cancelled with the loop)"""
        try:
            return ("ok", asyncio.run(coro_fn()))
        except BaseException as e:  # pylint: disable=broad-except
            if isinstance(e, (KeyboardInterrupt, SystemExit, MemoryError)):
                raise
            return ("exn", self.impl.exc_class(e))


_H = None


def harness():
    """the one harness of this process; rebuilt when somebody else re-configured the injector in the meantime (several checks in one process)"""
    global _H
    if _H is not None:
        import inject

        try:
            ours = inject.is_configured() and inject.instance(_H.TokenLogicProvider) is _H.provider
        except Exception:  # pylint: disable=broad-except
            ours = False
        if not ours:
            _H = None
    if _H is None:
        _H = Harness()
    return _H


# ------------------------------------------------------------------ scenarios
class Scenario:
    """
    kind, name, params (JSON-able), slots = [(tag, occurrence)] one per yield-vector entry.
    run(vec) -> (outcome string, [Gallina async_case terms without schedules])
    """

    def __init__(self, kind, name, params, slots, runner_fn):
        self.kind, self.name, self.params, self.slots, self.fn = kind, name, params, slots, runner_fn

    def yields_of(self, vec):
        y = {}
        for (tag, j), n in zip(self.slots, vec):
            lst = y.setdefault(tag, [])
            while len(lst) <= j:
                lst.append(0)
            lst[j] = n
        return y

    def run(self, vec):
        return self.fn(self, self.yields_of(vec))


def ycount(yields, tag, j=0):
    lst = yields.get(tag) or [0]
    return lst[min(j, len(lst) - 1)]


def occurrences(keys):
    c, out = Counter(), []
    for k in keys:
        out.append(c[k])
        c[k] += 1
    return out


def site_cases(H, yields, rc, hints, fc_expected, multi_site):
    """one model case per recorded gather+zip site call"""
    out = []
    for kind, keys, res, extra in H.sites:
        occ = [0] * len(keys) if multi_site else occurrences(keys)
        if kind == "rc":
            aws = [(ycount(yields, ("rc", k), j), pick(rc[k], j, lambda v: v if isinstance(v, Exn) else CFV[v])) for k, j in zip(keys, occ)]
            out.append((f"CRc {gkeys(keys)} {gaws(aws)}", res))
        elif kind == "hints":
            aws = [(ycount(yields, ("hint", k), j), pick(hints.get(k), j, lambda v: v)) for k, j in zip(keys, occ)]
            out.append((f"CHints {gkeys(keys)} {gaws(aws)} {gbool(extra)}", res))
        elif kind == "fc":
            t = extra
            evs = [(ycount(yields, ("fc", k, t), j), pick(fc_expected.get(k), j, lambda v: v)) for k, j in zip(keys, occ)]
            out.append((f"CFc {gv(t)} {gkeys(keys)} {gaws(evs)}", fc_dict_obs(H, keys, res, t)))
    return out


def pick(v, j, f):
    if isinstance(v, list):
        v = v[min(j, len(v) - 1)]
    return f(v)


def fc_dict_obs(H, keys, res, t):
    """dict key -> [text at start, text after yielding, fulfilled] from the harness log + the dict ahbicht built"""
    if isinstance(res, Exn):
        return res
    obs = {}
    for k in res:
        entries = [e for e in H.log if e[0] == "fc" and e[1] == k and e[2] == t]
        if not entries:
            obs[k] = None
            continue
        # with a repeated key the dict keeps the LAST result: the entry of the last occurrence (= last call)
        last = [e for e in entries if e[4] == res[k][0]]
        e = (last or entries)[-1]
        obs[k] = [e[2], e[3], res[k][0]]
    return obs


def canon(x):
    return repr(x)


# -- requirement_constraint_evaluation
def sc_rc(name, expr, rc, hints):
    from ahbicht.expressions.condition_expression_parser import parse_condition_expression_to_tree
    from lark import Token

    H = harness()
    keys = [t.value for t in parse_condition_expression_to_tree(expr).scan_values(lambda v: isinstance(v, Token))]
    rck = [k for k in keys if k in rc]
    hk = [k for k in keys if k in hints or 500 <= int(k) < 900]
    slots = [(("rc", k), j) for k, j in zip(rck, occurrences(rck))] + [(("hint", k), j) for k, j in zip(hk, occurrences(hk))]

    def fn(sc, yields):
        from ahbicht.expressions.requirement_constraint_expression_evaluation import requirement_constraint_evaluation

        H.reset(rc=rc, hints=hints, yields=yields)
        out = H.run(lambda: requirement_constraint_evaluation(expr))
        strangers = [e for e in H.log if e[0] in ("other-version", "rc-context")]
        return canon(out) + ("|LEAK " + repr(strangers[:3]) if strangers else ""), site_cases(H, yields, rc, hints, {}, False)

    return Scenario("requirement_constraint_evaluation", name, {"expression": expr, "rc": rc, "hints": hints}, slots, fn)


# -- format_constraint_evaluation, alone or several concurrently, each task setting its own text
def sc_fc(name, groups, expected):
    """groups: [(text, fc expression)]"""
    from ahbicht.expressions.condition_expression_parser import parse_condition_expression_to_tree
    from lark import Token

    H = harness()
    gkeys_ = []
    slots = []
    for text, expr in groups:
        keys = [t.value for t in parse_condition_expression_to_tree(expr).scan_values(lambda v: isinstance(v, Token))]
        gkeys_.append(keys)
        slots += [(("fc", k, text), j) for k, j in zip(keys, occurrences(keys))]

    cache = {}

    def fn(sc, yields):
        from ahbicht.expressions.format_constraint_expression_evaluation import format_constraint_evaluation

        async def one(text, expr):
            H.text_var.set(text)
            return await format_constraint_evaluation(expr)

        async def main():
            H.text_var.set("the caller's text")
            if len(groups) == 1:
                return await one(*groups[0])
            return await asyncio.gather(*[one(t, e) for t, e in groups])

        if "alone" not in cache:  # every evaluation on its own, nothing else running (oracle: "each sees only its own data")
            cache["alone"] = []
            for t, e in groups:
                H.reset(fc_expected=expected, yields={})
                cache["alone"].append(canon(H.run(lambda t=t, e=e: one(t, e))))
        H.reset(fc_expected=expected, yields=yields)
        out = H.run(main)
        # oracle part: every FC evaluator saw, after yielding, the text of its own task
        leaks = [e for e in H.log if e[0] == "fc" and e[2] != e[3]]
        if out[0] == "ok":
            got = [canon(("ok", r)) for r in (out[1] if len(groups) > 1 else [out[1]])]
            leaks += [("not-own", groups[i], a, g) for i, (a, g) in enumerate(zip(cache["alone"], got)) if a != g]
        cases = []
        per_group = []
        for (text, _), keys in zip(groups, gkeys_):
            rec = [s for s in H.sites if s[0] == "fc" and s[3] == text]
            per_group.append(fc_dict_obs(H, keys, rec[0][2], text) if len(rec) == 1 else None)
        gterm = "[" + "; ".join(
            f"({gv(t)}, {gkeys(ks)}, {gaws([(ycount(yields, ('fc', k, t), j), pick(expected.get(k), j, lambda v: v)) for k, j in zip(ks, occurrences(ks))])})"
            for (t, _), ks in zip(groups, gkeys_)) + "]"
        if out[0] == "exn":
            obs = Exn(out[1])
        else:
            obs = per_group
        cases.append((f"CFcPar {gterm}", obs))
        return canon(out) + ("|LEAK " + repr(leaks) if leaks else ""), cases

    return Scenario("format_constraint_evaluation", name, {"groups": groups, "expected": expected}, slots, fn)


# -- evaluate_ahb_expression_tree with several modal-mark parts
MARKS = ["Muss", "Soll", "Kann"]


def sc_ahb(name, parts, rc, expected, text):
    """parts: [(mark, rc key or None, fc key or None)] ; the part is `mark [rc][fc]`"""
    H = harness()
    expr = " ".join(m + ("" if k is None else f" [{k}]" + ("" if f is None else f"[{f}]")) for m, k, f in parts)
    slots = [(("rc", k), 0) for _, k, _ in parts if k is not None]
    slots += [(("fc", f, text), 0) for _, k, f in parts if f is not None and rc.get(k) == "FULFILLED"]

    def fn(sc, yields):
        from ahbicht.expressions.ahb_expression_evaluation import evaluate_ahb_expression_tree
        from ahbicht.expressions.ahb_expression_parser import parse_ahb_expression_to_single_requirement_indicator_expressions as parse

        async def main():
            H.text_var.set(text)
            return await evaluate_ahb_expression_tree(parse(expr))

        H.reset(rc=rc, fc_expected=expected, yields=yields)
        out = H.run(main)
        cases = site_cases(H, yields, rc, {}, expected, True)
        sl = []
        for i, (m, k, f) in enumerate(parts):
            if k is None:
                sl.append(("plain", [True, i]))
            else:
                v = rc[k]
                sl.append(("aw", ycount(yields, ("rc", k)), Exn(v.name) if isinstance(v, Exn) else [v == "FULFILLED", i]))
        if out[0] == "exn":
            obs = Exn(out[1])
        else:
            r = out[1]
            idx = [i for i, (m, _, _) in enumerate(parts) if m.upper() == r.requirement_indicator.name][0]
            obs = [bool(r.requirement_constraint_evaluation_result.requirement_constraints_fulfilled), idx]
        cases.append((f"CParts {gslots(sl)}", obs))
        return canon(out), cases

    return Scenario("evaluate_ahb_expression_tree", name, {"expression": expr, "rc": rc, "expected": expected, "text": text}, slots, fn)


def sc_ahb_par(name, evals, rc, expected, slow):
    """evals: [(text, rc key, fc key)]: the AHB expressions `Muss [rc][fc]` evaluated concurrently, each task with its own entered text; `slow`: the tags that get a
    yield-vector entry (the other awaitables do not suspend). Oracle: every evaluation reports the format-constraint verdict for ITS text."""
    H = harness()
    slots = [(tag, 0) for tag in slow]

    def fn(sc, yields):
        from ahbicht.expressions.ahb_expression_evaluation import evaluate_ahb_expression_tree
        from ahbicht.expressions.ahb_expression_parser import parse_ahb_expression_to_single_requirement_indicator_expressions as parse

        async def one(text, k, f):
            H.text_var.set(text)
            return await evaluate_ahb_expression_tree(parse(f"Muss [{k}][{f}]"))

        async def main():
            H.text_var.set("the caller's text")
            return await asyncio.gather(*[one(*e) for e in evals])

        H.reset(rc=rc, fc_expected=expected, yields=yields)
        out = H.run(main)
        leaks = [e for e in H.log if e[0] == "fc" and e[2] != e[3]]
        if out[0] == "ok":
            for (text, k, f), r in zip(evals, out[1]):
                fr = r.format_constraint_evaluation_result
                want = text == expected.get(f)
                if fr.format_constraints_fulfilled is not want or (not want and repr(text) not in (fr.error_message or "")):
                    leaks.append(("not-own", (text, k, f), f"fulfilled={want} for the text {text!r}", f"fulfilled={fr.format_constraints_fulfilled} message={fr.error_message!r}"))
        return canon(out) + ("|LEAK " + repr(leaks) if leaks else ""), []

    return Scenario("evaluate_ahb_expression_tree (several concurrently)", name, {"evaluations": [list(e) for e in evals], "rc": rc, "expected": expected}, slots, fn)


BARE_REFS = {}   # AHB expression without conditions -> its result, taken at the very start of the run (before anything else was evaluated in this process)


def bare_references():
    H = harness()   # first: it imports ahbicht in an order that works (ahbicht.expressions.ahb_expression_evaluation cannot be the first module imported)
    from ahbicht.expressions.ahb_expression_evaluation import evaluate_ahb_expression_tree
    from ahbicht.expressions.ahb_expression_parser import parse_ahb_expression_to_single_requirement_indicator_expressions as parse

    for e in ("Muss", "Soll", "Kann", "X", "Muss Kann"):
        H.reset()

        async def one(e=e):
            return await evaluate_ahb_expression_tree(parse(e))

        BARE_REFS.setdefault(e, canon(H.run(one)))


def sc_ahb_mixed(name, exprs, rc, slow):
    """several AHB expressions evaluated concurrently, among them expressions without any condition: their result is the one such an expression has when it is the
    first thing the process evaluates (BARE_REFS) -- whichever part another evaluation chose in the meantime"""
    H = harness()
    slots = [(tag, 0) for tag in slow]

    def fn(sc, yields):
        from ahbicht.expressions.ahb_expression_evaluation import evaluate_ahb_expression_tree
        from ahbicht.expressions.ahb_expression_parser import parse_ahb_expression_to_single_requirement_indicator_expressions as parse

        async def one(e):
            return await evaluate_ahb_expression_tree(parse(e))

        async def main():
            return await asyncio.gather(*[one(e) for e in exprs])

        H.reset(rc=rc, yields=yields)
        out = H.run(main)
        leaks = []
        if out[0] == "ok":
            for e, r in zip(exprs, out[1]):
                if e in BARE_REFS and canon(("ok", r)) != BARE_REFS[e]:
                    leaks.append(("not-own", e, BARE_REFS[e], canon(("ok", r))))
        return canon(out) + ("|LEAK " + repr(leaks) if leaks else ""), []

    return Scenario("evaluate_ahb_expression_tree (several concurrently)", name, {"expressions": list(exprs), "rc": rc}, slots, fn)


# -- parse_expression_including_unresolved_subexpressions(resolve_packages=True)
PKG = {"1P": ("[1] U [2]", ["1", "2"]), "2P": ("[3]", ["3"]), "3P": ("[4] O ([5] U [6])", ["4", "5", "6"]), "4P": ("[7][901]", ["7", "901"])}


def sc_pkg(name, items, prefix="", unresolvable=()):
    """items: keys ('5') and packages ('1P'); expression = prefix + items joined by operators"""
    H = harness()
    ops = [" U ", " O ", " X "]
    expr = prefix
    for i, it in enumerate(items):
        if i:
            expr += ops[i % 3] if not prefix else " U "
        expr += f"[{it}]"
    pk = [it for it in items if it.endswith("P")]
    slots = [(("pkg", p), j) for p, j in zip(pk, occurrences(pk))]
    table = {p: (None if p in unresolvable else PKG[p][0]) for p in set(pk)}

    def fn(sc, yields):
        from lark import Token

        from ahbicht.expressions.expression_resolver import parse_expression_including_unresolved_subexpressions as pr

        H.reset(pkg=table, yields=yields)
        out = H.run(lambda: pr(expr, resolve_packages=True))
        sl = []
        for it, j in zip(items, occurrences(items)):
            if it.endswith("P"):
                sl.append(("aw", ycount(yields, ("pkg", it), j), Exn("NotImpl") if it in unresolvable else list(PKG[it][1])))
            else:
                sl.append(("plain", it))
        sc.problem = None
        if out[0] == "exn":
            obs = Exn(out[1])
        else:
            obs = [t.value for t in out[1].scan_values(lambda v: isinstance(v, Token)) if t.type == "CONDITION_KEY"]
            # every package occurrence is paired with the value produced for it: the leaves, in written order, are the plain keys and, at the place of
            # each package occurrence, the keys of ITS package expression
            want = []
            for it in items:
                want += list(PKG[it][1]) if it.endswith("P") else [it]
            if not any(it in unresolvable for it in items) and obs != want:
                sc.problem = (want, obs)
        return canon((out[0], str(out[1]))), [(f"CPackages {gslots(sl)}", obs)]

    return Scenario("parse_expression_including_unresolved_subexpressions", name, {"expression": expr, "packages": table}, slots, fn)


# -- is_valid_expression on several expressions concurrently, ContextVar-based setter
def sc_valid(name, exprs, seed):
    import random

    H = harness()
    rnd = random.Random(seed)

    def prepare_runs():
        from ahbicht.expressions.condition_expression_parser import extract_categorized_keys_from_tree
        from ahbicht.expressions.expression_resolver import parse_expression_including_unresolved_subexpressions as pr

        runs = []
        for e in exprs:
            tree = asyncio.run(pr(e))
            ck = extract_categorized_keys_from_tree(tree, sanitize=True)
            runs.append((e, tree, len(ck.generate_possible_content_evaluation_results())))
        return runs

    meta = prepare_runs()
    cache = {}
    slots = []  # yields are derived from the seed per (expression, cer, key): too many awaitables to enumerate

    def fn(sc, yields_unused, vec_seed=0):
        from ahbicht.content_evaluation import is_valid_expression
        from ahbicht.expressions.ahb_expression_evaluation import evaluate_ahb_expression_tree
        from ahbicht.expressions.condition_expression_parser import extract_categorized_keys_from_tree

        # the CER objects are created inside is_valid_expression; the setter is the first to see them: tag them there
        tags = {}
        keep = []
        counters = Counter()
        yl = {}
        vr = random.Random(f"{seed}-{vec_seed}")

        def make_setter(xi):
            def setter(cer):
                keep.append(cer)
                tags[id(cer)] = (xi, counters[xi])
                counters[xi] += 1
                H.cer_var.set(cer)

            return setter

        class LazyYields(dict):
            def get(self, tag, default=None):
                if tag not in self:
                    self[tag] = [0 if vec_seed == 0 else vr.randint(0, 3)]
                return self[tag]

        if "alone" not in cache:  # oracle: every is_valid_expression call on its own, nothing else running
            cache["alone"] = []
            for xi, e in enumerate(exprs):
                H.reset(yields={}, cer_tags=tags)
                a = H.run(lambda xi=xi, e=e: is_valid_expression(e, make_setter(xi)))
                cache["alone"].append(a[1][0] if a[0] == "ok" else a[1])
            tags.clear()
            keep.clear()
            counters.clear()
        H.reset(yields=LazyYields(), cer_tags=tags)

        async def main():
            return await asyncio.gather(*[is_valid_expression(e, make_setter(xi)) for xi, e in enumerate(exprs)])

        out = H.run(main)
        leaks = [e for e in H.log if e[2] != e[3]]
        # every content evaluation result handed to the setter is examined with its OWN data: per expression and looked-up key, the results whose
        # data the evaluator was given are exactly the results that were set (a result nobody looked at, or one looked at twice, is somebody else's data)
        if out[0] == "ok":
            for xi in range(len(exprs)):
                if out[1][xi][0] is not True:  # a failing evaluation ends the gather: the remaining ones need not have run
                    continue
                per_key = {}
                for kind, k, t0, _t1 in H.log:
                    if kind == "rc" and t0 is not None and t0[0] == xi:
                        per_key.setdefault(k, Counter())[t0[1]] += 1
                for k, cnt in sorted(per_key.items()):
                    never = [ci for ci in range(counters[xi]) if cnt[ci] == 0]
                    if never:
                        leaks.append(("never-examined", f"expression {xi} key {k}", "content evaluation results set", counters[xi], "never seen by the evaluator", never[:8],
                                      "seen more than once", sorted(ci for ci, n in cnt.items() if n > 1)[:8]))
                        break
        if out[0] == "ok" and [r[0] for r in out[1]] != cache["alone"]:
            leaks.append(("not-own", "verdicts alone", cache["alone"], "concurrently", [r[0] for r in out[1]]))
        # model case: per expression the cers (as rc dicts, in the order the tasks were created), the yields, the
        # outcome of evaluating with each cer ALONE (sequentially, nothing else running)
        runs_terms, obs_runs = [], []
        by_x = {}
        for cer in keep:
            by_x.setdefault(tags[id(cer)][0], []).append(cer)
        rc_sites = {s[3]: s for s in H.sites if s[0] == "rc"}
        yields_now = dict(H.yields)
        for xi, (e, tree, _) in enumerate(meta):
            cers = by_x.get(xi, [])
            keys = None
            cer_vals, ytbl, outcome, obs_c = [], [], [], []
            for ci, cer in enumerate(cers):
                d = {k: CFV[v.name] for k, v in cer.requirement_constraints.items()}
                site = rc_sites.get((xi, ci))
                if site is not None:
                    keys = site[1]
                cer_vals.append(d)
            if keys is None:
                keys = []
            for ci, cer in enumerate(cers):
                d = cer_vals[ci]
                ytbl.append((d, [ycount(yields_now, ("rc", k, (xi, ci)), 0) for k in keys]))
                # alone
                alone_tags = {id(cer): (xi, ci)}
                H2_sites, H2_log = H.sites, H.log
                H.reset(yields={}, cer_tags=alone_tags)

                async def alone(cer=cer, tree=tree):
                    H.cer_var.set(cer)
                    return await evaluate_ahb_expression_tree(tree)

                a = H.run(alone)
                seen = {k: d[k] for k in keys}
                if a[0] == "exn":
                    outcome.append((seen, Exn(a[1])))
                H.sites, H.log = H2_sites, H2_log
                H.cer_tags = tags
                site = rc_sites.get((xi, ci))
                got = site[2] if site is not None else None
                ex = [o for s, o in outcome if s == seen]
                obs_c.append(ex[0] if ex and not isinstance(got, Exn) else got)
            # cers as the model sees them: the dict value restricted to what is looked up = whole rc dict
            runs_terms.append("(" + "[" + "; ".join(gv(d) for d in cer_vals) + "], " + gkeys(keys) + ", ["
                              + "; ".join(f"({gv(d)}, {gnat_list(ys)})" for d, ys in ytbl) + "], ["
                              + "; ".join(f"({gv(s)}, {gv(o)})" for s, o in outcome) + "])")
            if out[0] == "ok":
                obs_runs.append([out[1][xi][0], obs_c])
        obs = Exn(out[1]) if out[0] == "exn" else obs_runs
        # only the verdict: WHICH InvalidExpressionError (of which content evaluation result) is reported is schedule dependent by design
        res = canon((out[0], [(r[0], r[1] is not None) for r in out[1]] if out[0] == "ok" else out[1]))
        # the model's cers must be the looked-up dicts (keys order = site order): re-key them
        return res + ("|LEAK " + repr(leaks[:3]) if leaks else ""), [(f"CValid [{'; '.join(runs_terms)}]", obs)]

    sc = Scenario("is_valid_expression", name, {"expressions": exprs, "seed": seed}, slots, None)
    sc.fn_seeded = fn
    return sc


# -- direct calls of the gather+zip sites with repeated keys and occurrence-dependent (impure) answers
def sc_direct(name, site, keys, values):
    """values: {key: [value per occurrence]}"""
    H = harness()
    slots = [((site if site != "hints" else "hint", k) if site != "fc" else ("fc", k, "txt"), j) for k, j in zip(keys, occurrences(keys))]

    def fn(sc, yields):
        H.reset(rc=values if site == "rc" else None, hints=values if site == "hints" else None,
                fc_expected=values if site == "fc" else None, yields=yields)

        async def main():
            if site == "rc":
                return await H.rc_ev.evaluate_conditions(keys, H.default_data)
            if site == "hints":
                return await H.hints_pr.get_hints(keys, raise_key_error=False)
            H.text_var.set("txt")
            return await H.fc_ev.evaluate_format_constraints(keys)

        out = H.run(main)
        return canon((out[0], str(out[1]))), site_cases(H, yields, values, values, values, False)

    return Scenario(f"direct:{site}", name, {"site": site, "keys": keys, "values": values}, slots, fn)


def sc_gather_if_necessary(name, items):
    """items: [('plain', v) | ('aw', v)]"""
    H = harness()
    slots = [(("gin", i), 0) for i, it in enumerate(items) if it[0] == "aw"]

    def fn(sc, yields):
        from ahbicht.utility_functions import gather_if_necessary

        H.reset(yields=yields)

        async def aw(i, v):
            await H.nap(("gin", i))
            if isinstance(v, Exn):
                raise EXN[v.name]("harness")
            return v

        async def main():
            return await gather_if_necessary([aw(i, it[1]) if it[0] == "aw" else it[1] for i, it in enumerate(items)])

        out = H.run(main)
        sl = [("plain", it[1]) if it[0] == "plain" else ("aw", ycount(yields, ("gin", i)), it[1]) for i, it in enumerate(items)]
        obs = Exn(out[1]) if out[0] == "exn" else list(out[1])
        return canon(out), [(f"CMixed {gslots(sl)}", obs)]

    return Scenario("gather_if_necessary", name, {"items": [list(map(str, it)) for it in items]}, slots, fn)


def scenarios(ctx):
    rng = ctx.rng
    st = ["FULFILLED", "UNFULFILLED", "UNKNOWN"]
    S = []
    # requirement constraints + hints
    rc_exprs = ["[1] U [2]", "[1] U ([2] O [3])", "([1] X [2]) U [3]", "[1] U [1]", "[1] O [2] O [1]", "[2] U [501]", "[501] U [502]",
                "[1] U [2] U [501] U [502]", "[1] X [2] X [3] X [4]", "[1] U [501] U [1] U [501]", "[1] U ([2] O [3]) U [4] U [502]",
                "[3][501] U [4]", "[1] O [501]"]
    for i, e in enumerate(rc_exprs):
        for rep in range(1 if ctx.quick else 3):
            rc = {k: rng.choice(st) for k in RC_KEYS[:6]}
            S.append(sc_rc(f"rc{i}.{rep}", e, rc, {"501": "Hinweis A", "502": "Hinweis B"}))
    S.append(sc_rc("rc-raise1", "[1] U [2] U [3]", {"1": "FULFILLED", "2": Exn("NotImpl"), "3": "UNFULFILLED"}, {}))
    S.append(sc_rc("rc-raise2", "[1] U [2] U [3]", {"1": Exn("NotImpl"), "2": "FULFILLED", "3": Exn("NotImpl")}, {}))
    S.append(sc_rc("hint-none", "[1] U [501] U [502]", {"1": "FULFILLED"}, {"501": None, "502": "Hinweis B"}))
    S.append(sc_rc("hint-raise", "[1] U [501] U [502]", {"1": "FULFILLED"}, {"501": "Hinweis A", "502": Exn("ValueErr")}))
    # awaitables of DIFFERENT kinds fail (the code asks the requirement-constraint evaluator first and the hints provider afterwards: which error
    # escapes is fixed by that order, not by who finishes first)
    S.append(sc_rc("rc-and-hint-fail", "[1] U [501]", {"1": Exn("NotImpl")}, {"501": None}))
    S.append(sc_rc("rc-and-hint-fail2", "[1] U [2] U [501] U [502]", {"1": "FULFILLED", "2": Exn("ValueErr")}, {"501": "Hinweis A", "502": Exn("NotImpl")}))
    S.append(sc_rc("rc-and-hint-fail3", "[2][501] U [1]", {"1": Exn("NotImpl"), "2": "UNFULFILLED"}, {"501": None}))
    # format constraints (ContextVar read after yielding)
    exp = {"901": "abc", "902": "abd", "903": "abc", "904": None}
    S.append(sc_fc("fc1", [("abc", "[901] U [902]")], exp))
    S.append(sc_fc("fc2", [("abc", "[901] O [902] X [903]")], exp))
    S.append(sc_fc("fc-dup", [("abc", "[901] U [902] O [901]")], exp))
    S.append(sc_fc("fc-none", [(None, "[904] U [901]")], exp))
    S.append(sc_fc("fc-par2", [("abc", "[901] U [902]"), ("abd", "[901] U [902]")], exp))
    S.append(sc_fc("fc-par3", [("abc", "[901]"), ("abd", "[902] O [901]"), ("xyz", "[903]")], exp))
    S.append(sc_fc("fc-par-same-key", [("abc", "[901]"), ("abd", "[901]"), ("abe", "[901]"), ("abf", "[901]")], exp))
    S.append(sc_fc("fc-raise", [("abc", "[901] U [905]")], dict(exp, **{"905": Exn("NotImpl")})))
    if not ctx.quick:
        S.append(sc_fc("fc-par5", [("t%d" % i, "[901]") for i in range(5)], {"901": "t3"}))
        S.append(sc_fc("fc5", [("abc", "[901] U [902] U [903] O [904] O [901]")], exp))
    # several modal-mark parts (gather_if_necessary over awaitable and plain parts)
    for i, parts in enumerate([[("Muss", "1", None), ("Soll", "2", None), ("Kann", "3", None)],
                               [("Muss", "1", None), ("Kann", None, None)],
                               [("Muss", "1", "901"), ("Soll", "2", "902")],
                               [("Muss", "1", "901"), ("Soll", "2", None), ("Kann", None, None)],
                               [("Soll", "4", None), ("Muss", "2", "903"), ("Kann", "1", None)]]):
        for rep in range(2 if ctx.quick else 4):
            rc = {k: rng.choice(st[:2]) for k in RC_KEYS[:4]}
            S.append(sc_ahb(f"ahb{i}.{rep}", parts, rc, exp, "abc"))
    S.append(sc_ahb("ahb-raise", [("Muss", "1", None), ("Soll", "2", None), ("Kann", "3", None)],
                    {"1": "UNFULFILLED", "2": Exn("NotImpl"), "3": "FULFILLED"}, exp, "abc"))
    # several AHB evaluations in flight, one format constraint, different entered texts (two of them the same): who finishes when must not matter to whose verdict it is
    allf = {k: "FULFILLED" for k in RC_KEYS[:4]}
    S.append(sc_ahb_par("ahb-par-texts", [("a", "1", "901"), ("bb", "2", "901"), ("bb", "3", "901")], allf, {"901": "bb"}, [("rc", "3"), ("fc", "901", "a"), ("fc", "901", "bb")]))
    # an evaluation whose chosen part has no condition next to evaluations of bare modal marks
    S.append(sc_ahb_mixed("ahb-bare-chosen", ["Muss [1] Kann", "Muss", "Kann", "Soll [2] Muss"], {"1": "UNFULFILLED", "2": "UNFULFILLED", "3": "FULFILLED", "4": "FULFILLED"}, [("rc", "1"), ("rc", "2")]))
    S.append(sc_ahb_par("ahb-par-texts2", [("bb", "1", "901"), ("a", "2", "901"), ("a", "3", "902"), ("bb", "4", "901")], allf, {"901": "bb", "902": "a"},
                        [("rc", "4"), ("rc", "2"), ("fc", "901", "bb"), ("fc", "901", "a")]))
    # packages, also repeated
    S.append(sc_pkg("pkg1", ["1P", "8", "2P"]))
    S.append(sc_pkg("pkg2", ["1P", "2P", "1P"], prefix="Muss "))
    S.append(sc_pkg("pkg3", ["9", "3P", "1P", "3P"]))
    S.append(sc_pkg("pkg-top", ["1P"]))
    S.append(sc_pkg("pkg4", ["1P", "2P", "3P", "4P"], prefix="Muss "))
    S.append(sc_pkg("pkg-unresolvable", ["1P", "2P", "3P"], unresolvable=("2P",)))
    S.append(sc_pkg("pkg-depths", ["3P", "1P", "8", "2P"]))      # O binds looser than U / X: the occurrences sit at different depths of the tree
    S.append(sc_pkg("pkg-depths2", ["9", "2P", "3P", "1P", "7"]))
    if not ctx.quick:
        S.append(sc_pkg("pkg5", ["1P", "2P", "1P", "3P", "2P"]))
    # the sites directly, with repeated keys and answers that differ per occurrence
    S.append(sc_direct("dup-rc", "rc", ["1", "2", "1"], {"1": ["FULFILLED", "UNFULFILLED"], "2": ["UNKNOWN"]}))
    S.append(sc_direct("dup-rc2", "rc", ["1", "1", "2", "1"], {"1": ["FULFILLED", "UNFULFILLED", "UNKNOWN"], "2": ["FULFILLED"]}))
    S.append(sc_direct("dup-hints", "hints", ["501", "502", "501"], {"501": ["erster", "zweiter"], "502": [None]}))
    S.append(sc_direct("dup-hints2", "hints", ["501", "501", "502"], {"501": ["erster", None], "502": ["x"]}))
    S.append(sc_direct("dup-fc", "fc", ["901", "902", "901"], {"901": ["txt", "other"], "902": ["txt"]}))
    S.append(sc_gather_if_necessary("gin1", [("aw", 1), ("plain", 2), ("aw", 3), ("plain", 4), ("aw", 5)]))
    S.append(sc_gather_if_necessary("gin2", [("plain", 1), ("aw", Exn("ValueErr")), ("aw", 3)]))
    S.append(sc_gather_if_necessary("gin3", [("plain", 1), ("plain", 2)]))
    return S


def vectors(ctx, n):
    """all vectors of the tier's small scope, random ones beyond; the all-zero vector first"""
    top, nmax = (2, 4) if ctx.quick else (3, 5)
    if n <= nmax:
        return list(itertools.product(range(top + 1), repeat=n)), True
    out = [tuple([0] * n)]
    for _ in range(60 if ctx.quick else 400):
        out.append(tuple(ctx.rng.randint(0, 3) for _ in range(n)))
    return out, False


def explicit_schedules(ctx, i):
    """a few scheduler choice lists for the model side (leftmost / rightmost / random)"""
    if i % 7:
        return []
    return [[], [LAST] * 60, [ctx.rng.randint(0, 50) for _ in range(60)]]


def concurrent_data_oracle(ctx):
    """
    Concurrent evaluations that take their evaluatable data from context-local storage each see only their own data:
    several requirement/AHB evaluations run concurrently on ONE shared evaluator instance, every evaluation has its own
    EvaluatableData in a ContextVar, the async evaluate_<key> methods yield a prescribed number of times and answer from the
    data they were handed. Each result must equal the result of running that evaluation alone (implementation only).
    """
    import itertools
    from contextvars import ContextVar

    import inject
    from efoli import EdifactFormat, EdifactFormatVersion
    from ahbicht.content_evaluation.evaluationdatatypes import EvaluatableData, EvaluatableDataProvider
    from ahbicht.content_evaluation.fc_evaluators import FcEvaluator
    from ahbicht.content_evaluation.rc_evaluators import RcEvaluator
    from ahbicht.content_evaluation.token_logic_provider import SingletonTokenLogicProvider, TokenLogicProvider
    from ahbicht.expressions.ahb_expression_evaluation import evaluate_ahb_expression_tree
    from ahbicht.expressions.expression_resolver import parse_expression_including_unresolved_subexpressions
    from ahbicht.expressions.hints_provider import DictBasedHintsProvider
    from ahbicht.expressions.package_expansion import DictBasedPackageResolver
    from ahbicht.models.condition_nodes import ConditionFulfilledValue as V

    global _H
    fmt, ver = EdifactFormat.UTILMD, EdifactFormatVersion.FV2210
    data_var = ContextVar("verif_data", default=None)
    naps = {}

    class Rc(RcEvaluator):
        edifact_format, edifact_format_version = fmt, ver

        def _get_default_context(self):
            return None

    def make(k):
        async def ev(self, evaluatable_data, context):  # pylint: disable=unused-argument
            for _ in range(naps.get((evaluatable_data.body["who"], k), 0)):
                await asyncio.sleep(0)
            return V[evaluatable_data.body[k]]

        return ev

    for k in ("1", "2", "3"):
        setattr(Rc, f"evaluate_{k}", make(k))

    class Fc(FcEvaluator):
        edifact_format, edifact_format_version = fmt, ver

    hp, pr = DictBasedHintsProvider({}), DictBasedPackageResolver({})
    for x in (hp, pr):
        x.edifact_format, x.edifact_format_version = fmt, ver
    rc_ev = Rc()

    def cfg(binder):
        binder.bind(TokenLogicProvider, SingletonTokenLogicProvider([rc_ev, Fc(), hp, pr]))
        binder.bind_to_provider(EvaluatableDataProvider, lambda: EvaluatableData(body=data_var.get(), edifact_format=fmt, edifact_format_version=ver))

    inject.clear_and_configure(cfg)
    n = 0
    try:
        exprs_ = ["Muss [1] U [2]", "Muss [1] O [2] Kann [3]", "X [2] U ([1] O [3])"]
        states = ("FULFILLED", "UNFULFILLED")
        for expr in exprs_[: 2 if ctx.quick else 3]:
            tree = asyncio.run(parse_expression_including_unresolved_subexpressions(expr))
            datas = [{"who": "A", "1": "FULFILLED", "2": "FULFILLED", "3": "UNFULFILLED"}, {"who": "B", "1": "UNFULFILLED", "2": "FULFILLED", "3": "FULFILLED"},
                     {"who": "C", "1": "FULFILLED", "2": "UNFULFILLED", "3": "FULFILLED"}]

            async def one(d):
                data_var.set(d)
                r = await evaluate_ahb_expression_tree(tree)
                return (str(r.requirement_indicator), r.requirement_constraint_evaluation_result.requirement_constraints_fulfilled)

            alone = []
            for d in datas:
                naps.clear()
                alone.append(asyncio.run(one(d)))
            keys = [(d["who"], k) for d in datas[:2] for k in ("1", "2")]
            rng_vecs = list(itertools.product(range(3), repeat=len(keys))) if not ctx.quick else [tuple(ctx.rng.randint(0, 2) for _ in keys) for _ in range(25)] + [(0,) * len(keys), (1, 0, 0, 0), (0, 0, 1, 0)]
            for vec in rng_vecs:
                for order in ((0, 1), (1, 0), (0, 1, 2)):
                    naps.clear()
                    naps.update(dict(zip(keys, vec)))

                    async def main():
                        return await asyncio.gather(*[one(datas[i]) for i in order])

                    try:
                        got = asyncio.run(main())
                    except BaseException as e:  # pylint: disable=broad-except
                        got = repr(e)
                    n += 1
                    want = [alone[i] for i in order]
                    if got != want:
                        ctx.fail(f"own-data|{expr}|{vec}|{order}", {"kind": "concurrent_data", "expression": expr, "data": [datas[i] for i in order], "yields": dict(zip(map(str, keys), vec))},
                                 f"each evaluation as when run alone: {want}", f"{got}", "oracle: concurrent evaluations with context-local evaluatable data each see only their own data")
                        break
    finally:
        inject.clear()
        _H = None
    return n


def run(ctx):
    from vlib import impl  # noqa: F401

    built = prepare(ctx, [], ["Props/C12.vo", "Corr/Async.vo"])
    ctx.trusted += ["asyncio.gather / task contexts / contextvars modelled by Model/Async.v (Par copies the context, results in argument order), tied by this correspondence",
                    "python-inject: the EvaluatableDataProvider function is called in the calling task's context"]
    terms, meta, seen = [], [], set()
    n_runs = n_nontrivial = 0
    exhaustive = []
    bare_references()   # first of all
    n_runs += concurrent_data_oracle(ctx)
    from vlib import cerconc

    n_runs += cerconc.fc_oracle(ctx, "C12") + cerconc.mixed_oracle(ctx, "C12")
    S = scenarios(ctx)
    for sc in S:
        if sc.fn is None:
            continue
        vecs, exh = vectors(ctx, len(sc.slots))
        if exh:
            exhaustive.append((sc.name, len(sc.slots), len(vecs)))
        base = None
        for vi, vec in enumerate(vecs):
            out, cases = sc.run(vec)
            n_runs += 1
            if base is None:
                base = out
            inp = {"kind": sc.kind, "scenario": sc.name, "params": sc.params, "slots": [[list(map(str, t)), j] for t, j in sc.slots], "yield_vector": list(vec)}
            if "|LEAK" in out:
                ctx.fail(f"{sc.name}|leak", inp, "every evaluator finds its own task's text in the ContextVar after yielding and the evaluation context it was handed untouched by others; only the evaluators registered for the format version in use are asked",
                         out, "oracle: context isolation")
            elif out != base:
                ctx.fail(f"{sc.name}|order", inp, base, out, "oracle: result for this yield vector differs from the result when nothing yields")
            if getattr(sc, "problem", None):
                ctx.fail(f"{sc.name}|pairing", inp, f"condition keys in written order {sc.problem[0]}", f"{sc.problem[1]}",
                         "oracle: every package occurrence is paired with the expression produced for it")
                sc.problem = None
            if any(vec):
                n_nontrivial += 1
            for term, obs in cases:
                key = (term, gv(obs))
                if key in seen:
                    continue
                seen.add(key)
                terms.append(gcase(term, explicit_schedules(ctx, len(terms)), obs))
                meta.append((sc.name, list(vec), term, obs))
            if vi == 1:
                ctx.sample({"scenario": sc.name, "kind": sc.kind, "params": sc.params, "yield_vector": list(vec), "result": out[:300]})
    # is_valid_expression: two (three) expressions concurrently; yields derived from a seed per awaitable
    for sc in valid_scenarios(ctx):
        base = None
        for vs in range(0, 12 if ctx.quick else 60):
            out, cases = sc.fn_seeded(sc, None, vs)
            n_runs += 1
            if base is None:
                base = out
            inp = {"kind": sc.kind, "scenario": sc.name, "params": sc.params, "yield_seed": vs}
            if "|LEAK" in out:
                ctx.fail(f"{sc.name}|leak", inp, "every evaluator reads its own content evaluation result from the ContextVar store", out, "oracle: context isolation under is_valid_expression")
            elif out != base:
                ctx.fail(f"{sc.name}|order", inp, base, out, "oracle: validity differs from the run in which nothing yields")
            if vs:
                n_nontrivial += 1
            for term, obs in cases:
                key = (term, gv(obs))
                if key not in seen:
                    seen.add(key)
                    terms.append(gcase(term, explicit_schedules(ctx, 7 * len(terms)) if vs < 2 else [], obs))
                    meta.append((sc.name, vs, term, obs))
    n, bad, err = runner.run_case_files("C12", IMPORTS, "async_case", "async_check", terms, shard=150)
    if err:
        ctx.broke("correspondence (async skeleton) could not be evaluated in Coq", err)
    for i in bad[:15]:
        name, vec, term, obs = meta[i]
        ctx.broke("correspondence mismatch: model (den / explicit schedules) and ahbicht differ", json.dumps({"scenario": name, "yields": vec, "skeleton": term[:600], "observed": repr(obs)[:600]}, ensure_ascii=False))
    ctx.notes["duplicate_keys"] = ("ahbicht passes key lists with repetitions to the gather+zip sites (`[1] U [1]` calls evaluate_1 twice); dict(zip(keys, results)) keeps the result of the LAST "
                                   "occurrence at the position of the first, for every completion order (scenarios dup-rc, dup-rc2, dup-hints, dup-hints2, dup-fc with occurrence-dependent answers; "
                                   "model: dict_zip, theorem C12_pairing_dict_zip)")
    ctx.notes["correspondence"] = {"model_cases": n, "mismatches": len(bad), "implementation_runs": n_runs,
                                   "scenarios": len(S) + len(valid_scenarios(ctx)), "exhaustive_yield_vectors": [f"{a}: {{0..{2 if ctx.quick else 3}}}^{b} = {c}" for a, b, c in exhaustive][:80]}
    ctx.add_eval(n_runs + n)
    ctx.coverage["distinct_nontrivial"] = n_nontrivial
    ctx.coverage["exhaustive"] = False
    ctx.notes["exhaustive_scope"] = f"all yield vectors in {{0..{2 if ctx.quick else 3}}}^n for every scenario with n <= {4 if ctx.quick else 5} awaitables ({len(exhaustive)} scenarios); random vectors in {{0..3}}^n beyond"
    ctx.coverage["rule"] = ("implementation runs of requirement_constraint_evaluation / format_constraint_evaluation (alone and several concurrently, each task setting its own text) / "
                            "evaluate_ahb_expression_tree (2-3 modal-mark parts, plain and awaitable) / parse_expression_including_unresolved_subexpressions(resolve_packages=True) "
                            "(repeated, top-level, unresolvable packages) / the gather+zip sites called directly with repeated keys and occurrence-dependent answers / gather_if_necessary / "
                            "2-3 concurrent is_valid_expression calls with a ContextVar-based setter; one yield count per awaitable call; "
                            "non-trivial = runs whose yield vector is not all-zero; every distinct (skeleton, observation) is compared with the model's den (and run_to_end for 3 explicit schedules on every 7th case)")
    return finish(ctx, assumptions=ASSUMPTIONS)


def valid_scenarios(ctx):
    key = "_valid"
    if not hasattr(ctx, key):
        S = [sc_valid("valid1", ["Muss [1] U [2]", "Muss [3] O [4]"], 1),
             sc_valid("valid2", ["Muss [1] U [2]", "Muss [1] O [501]"], 2),
             sc_valid("valid3", ["Muss [1] X [2]", "Muss [2] U [501]", "Soll [1] U [3]"], 3),
             # many possible content evaluation results (3^4 = 81 tasks in one gather): a bound on what runs at once must not mix their data up
             sc_valid("valid-many", ["Muss ([1] U [2]) O ([3] U [4])"], 4)]
        setattr(ctx, key, S)
    return getattr(ctx, key)


def replay(path):
    r = json.load(open(path, encoding="utf-8"))
    inp = r["input"]

    name = inp["scenario"]
    print("replay", name, "yields", inp.get("yield_vector", inp.get("yield_seed")))
    if inp["kind"] == "is_valid_expression":
        sc = sc_valid(name, inp["params"]["expressions"], inp["params"]["seed"])
        out0, _ = sc.fn_seeded(sc, None, 0)
        out1, _ = sc.fn_seeded(sc, None, inp["yield_seed"])
    else:
        sc = rebuild(inp)
        out0, _ = sc.run([0] * len(sc.slots))
        out1, _ = sc.run(inp["yield_vector"])
    print("expected (nothing yields):", out0)
    print("observed now             :", out1)
    print("recorded observed        :", r["observed"])
    return 0 if out0 == out1 and "|LEAK" not in out1 else 1


def _unexn(x):
    """JSON round trip of params: 'Exn(NotImpl)' strings back to Exn"""
    if isinstance(x, str) and x.startswith("Exn(") and x.endswith(")"):
        return Exn(x[4:-1])
    if isinstance(x, dict):
        return {k: _unexn(v) for k, v in x.items()}
    if isinstance(x, list):
        return [_unexn(v) for v in x]
    return x


def rebuild(inp):
    p, kind, name = _unexn(inp["params"]), inp["kind"], inp["scenario"]
    if kind == "requirement_constraint_evaluation":
        return sc_rc(name, p["expression"], p["rc"], p["hints"])
    if kind == "format_constraint_evaluation":
        return sc_fc(name, [tuple(g) for g in p["groups"]], p["expected"])
    if kind == "evaluate_ahb_expression_tree":
        parts = []
        for tok in p["expression"].replace("] [", "][").split(" "):
            if tok and tok[0].isalpha():
                parts.append([tok, None, None])
            elif tok:
                ks = tok.strip("[]").split("][")
                parts[-1][1] = ks[0]
                parts[-1][2] = ks[1] if len(ks) > 1 else None
        return sc_ahb(name, [tuple(x) for x in parts], p["rc"], p["expected"], p["text"])
    if kind == "parse_expression_including_unresolved_subexpressions":
        import re

        items = re.findall(r"\[(\d+P?)\]", p["expression"])
        return sc_pkg(name, items, prefix="Muss " if p["expression"].startswith("Muss ") else "", unresolvable=tuple(k for k, v in p["packages"].items() if v is None))
    if kind.startswith("direct:"):
        return sc_direct(name, p["site"], p["keys"], p["values"])
    if kind == "gather_if_necessary":
        items = []
        for it in p["items"]:
            v = _unexn(it[1])
            items.append((it[0], v if isinstance(v, Exn) else int(v)))
        return sc_gather_if_necessary(name, items)
    raise ValueError(kind)
