"""C07 -- the collected format-constraint expression is well-formed and meaning-preserving."""
import itertools

from vlib import evalcorr, evalimpl, exprs
from vlib.props import c04
from vlib.runner import finish


def run(ctx):
    from vlib import impl  # noqa: F401
    from ahbicht.expressions.condition_expression_parser import parse_condition_expression_to_tree
    from ahbicht.models.condition_nodes import ConditionFulfilledValue as V

    built, cases = c04.common(ctx, "Props/C07.vo", extra_targets=["Corr/FcString.vo"], extra_gens=["Gen_grammar"])
    cases = cases + fc_deep_cases(ctx)
    # correspondence 1: node level (the collected expression string is compared character by character with `render`)
    raws = c04.correspondence(ctx, cases, "C07", levels=("node",))
    # correspondence 1b: the string-level model of the builder itself (f-strings, strip, the bracket-stripping regex), on single calls
    from vlib import fcbuilder

    fcbuilder.builder_correspondence(ctx)
    # correspondence 2: the whole part (requirement evaluation, then format_constraint_evaluation of the collected string)
    with_fc = [(t, rho) for (t, rho), (tag, v) in zip(cases, raws) if tag == "ok" and getattr(v, "format_constraints_expression", None)]
    ctx.rng.shuffle(with_fc)
    sub = with_fc[: 600 if ctx.quick else 8000]
    state = {"i": 0}

    def fc_assign(t, rho):
        ks = sorted({k for k in exprs.leaves(t) if exprs.kind(k) == "fc"})
        return {k: ((b := ctx.rng.random() < 0.5), None if b else f"{k} muss erfüllt sein") for k in ks}

    n, bad, _ = evalcorr.run_eval_correspondence(ctx, sub, "part", fc_assign=fc_assign, tag="C07")
    ctx.add_eval(n)
    evalcorr.report_mismatches(ctx, "part", bad, None)
    # oracle: the statement itself on ahbicht
    n_nontrivial, seen = 0, set()
    n_fed = 0
    n_rc_level = 0
    for (t, rho), (tag, v) in zip(cases, raws):
        if not (exprs.dom(t) and exprs.valid(t)):
            continue
        key = (exprs.show(t), tuple(sorted(rho.items())))
        if key in seen:
            continue
        seen.add(key)
        if tag != "ok":
            # a valid in-domain expression has a collected expression (or none) -- its evaluation does not raise
            want0 = exprs.rd(t, {k: V[s] for k, s in rho.items()}, V)
            ctx.fail(f"raises|{key}", {"expression": key[0], "rc": rho}, f"the reading {want0} as collected expression", f"raises {v}",
                     "oracle: a valid expression yields a collected format-constraint expression (or none), its evaluation does not raise")
            continue
        fx = getattr(v, "format_constraints_expression", None)
        from ahbicht.models.condition_nodes import UnevaluatedFormatConstraint

        if isinstance(v, UnevaluatedFormatConstraint):
            fx = f"[{v.condition_key}]"
        want = exprs.rd(t, {k: V[s] for k, s in rho.items()}, V)
        desc = {"expression": key[0], "rc": rho}
        if (fx is None) != (want is None):
            ctx.fail(f"presence|{key}", desc, f"reading {want}", f"collected expression {fx!r}", "oracle: an expression is collected iff the direct reading is non-empty")
            continue
        # the same at the entry point users call: requirement_constraint_evaluation reports the collected expression of the root node, whatever the outcome
        # (also an undetermined one: what was and-ed in or attached to a fulfilled operand still takes part)
        if n_rc_level < (2500 if ctx.quick else 40000):
            n_rc_level += 1
            evalimpl.set_cer(rc=rho, hints=evalcorr.default_hints([k for k in exprs.leaves(t) if exprs.kind(k) == "hint"]),
                             fc={k: (True, None) for k in exprs.leaves(t) if exprs.kind(k) == "fc"})
            tag3, v3 = evalimpl.outcome(lambda: evalimpl.rc_evaluation(evalcorr.to_lark(t)))
            fx3 = getattr(v3, "format_constraints_expression", None) if tag3 == "ok" else f"raises {v3}"
            # ... also when the expression arrives as the string a user writes: only the brackets the precedence needs, every operator in a spelling of its own
            if t[0] != "L" and tag3 == "ok" and fx3 == fx:
                from vlib.props import c05

                s_min = c05.minimal(t, ctx.rng)
                tag4, v4 = evalimpl.outcome(lambda: evalimpl.rc_evaluation(s_min))
                fx4 = getattr(v4, "format_constraints_expression", None) if tag4 == "ok" else f"raises {v4}"
                if fx4 != fx:
                    ctx.fail(f"written|{key}|{s_min}", dict(desc, written=s_min), f"the collected expression of the evaluated tree: {fx!r} (reading {want})",
                             f"requirement_constraint_evaluation({s_min!r}) reports {fx4!r}",
                             "oracle: the collected expression does not depend on how the source expression is written (spellings, only the necessary brackets)")
                    continue
            if fx3 != fx:
                ctx.fail(f"reported|{key}", desc, f"the collected expression of the evaluated tree: {fx!r} (reading {want})", f"requirement_constraint_evaluation reports {fx3!r}",
                         "oracle: requirement_constraint_evaluation reports the collected format-constraint expression, for every requirement outcome")
                continue
        if fx is None:
            continue
        n_nontrivial += 1
        try:
            pt = exprs.from_lark(parse_condition_expression_to_tree(fx))
        except BaseException as e:  # pylint: disable=broad-except
            ctx.fail(f"parse|{key}", desc, "a well-formed expression", f"{fx!r} -> {type(e).__name__}", "oracle: the collected expression can be fed to format-constraint evaluation")
            continue
        src_fc = {k for k in exprs.leaves(t) if exprs.kind(k) == "fc"}
        if pt is None or not set(exprs.leaves(pt)) <= src_fc or any(x[0] == "then" for x in _nodes(pt)):
            ctx.fail(f"shape|{key}", desc, f"only U/O/X, brackets and keys from {sorted(src_fc)}", fx, "oracle: shape of the collected expression")
            continue
        ks = sorted(src_fc)
        through_ahbicht = len(ks) <= 4 and (n_fed < (1500 if ctx.quick else 20000))
        n_fed += 1 if through_ahbicht else 0
        for vals in itertools.product((True, False), repeat=len(ks)):
            beta = dict(zip(ks, vals))
            if exprs.beval(pt, beta) != exprs.beval(_rd_as_tree(want), beta):
                ctx.fail(f"value|{key}|{vals}", dict(desc, fc=beta), f"value of the direct reading {want}", f"value of {fx!r} differs", "oracle: meaning of the collected expression")
                break
            if through_ahbicht:
                # ... and the value format_constraint_evaluation itself gives the collected string under this truth assignment
                evalimpl.set_cer(fc={k: (b, None if b else f"{k} muss erfüllt sein") for k, b in beta.items()})
                tag2, v2 = evalimpl.outcome(lambda: evalimpl.fc_evaluation(fx))
                got2 = v2.format_constraints_fulfilled if tag2 == "ok" else f"raises {v2}"
                if got2 != exprs.beval(_rd_as_tree(want), beta):
                    ctx.fail(f"fed|{key}|{vals}", dict(desc, fc=beta, collected=fx), f"format_constraint_evaluation({fx!r}) = value of the direct reading {want} = {exprs.beval(_rd_as_tree(want), beta)}",
                             str(got2), "oracle: the collected expression, fed to format-constraint evaluation, has the value of the direct reading")
                    break
    ctx.coverage["distinct_nontrivial"] = n_nontrivial
    ctx.coverage["rule"] = ("corpus of C04 (exhaustive <= 3 leaves x all assignments + random trees) + deeply nested FC trees (4-9 leaves, FCs bare or attached to fulfilled RCs). Correspondence: the collected expression string vs the model's `render` (node level), "
                            "and requirement evaluation followed by format_constraint_evaluation of the collected string under random truth assignments vs the model (part level). "
                            "Oracle: presence, shape (keys from the source, only U/O/X/brackets), and the Boolean value under ALL truth assignments vs an independent Python reading; "
                            "non-trivial = distinct valid (expression, assignment) pairs that collect an expression")
    for (t, rho), (tag, v) in list(zip(cases, raws))[::97]:
        if tag == "ok" and getattr(v, "format_constraints_expression", None) and exprs.size(t) >= 3:
            ctx.sample({"expression": exprs.show(t), "rc": rho, "collected": v.format_constraints_expression})
    from vlib import latency

    ctx.add_eval(latency.rc_latency_oracle(ctx, cases, 12 if ctx.quick else 150,
                                           "oracle: the collected format-constraint expression does not depend on how long the single asynchronous evaluators take"))
    # ... and the collected expression, fed to format_constraint_evaluation with format-constraint evaluators of different latencies, has the value of the reading
    collected = sorted({(v.format_constraints_expression, tuple(k for k in exprs.leaves(t) if exprs.kind(k) == "fc")) for (t, rho), (tag, v) in zip(cases, raws)
                        if tag == "ok" and getattr(v, "format_constraints_expression", None)}, key=lambda x: (-len(set(x[1])), x[0]))
    ctx.add_eval(latency.fc_latency_oracle(ctx, [(e, list(ks)) for e, ks in collected], "oracle: the collected expression, evaluated by format-constraint evaluators that "
                                           "really suspend, has the Boolean value of its reading", n_max=10 if ctx.quick else 120))
    return finish(ctx, assumptions=["interpretation S1 of the direct reading (DESIGN.md section 7)",
                                    "the string-level builder equals `render` of the token-level builder: established by correspondence (character by character), not by a theorem"])


def fc_deep_cases(ctx):
    """deeply nested format-constraint structure: every leaf is a bare FC key or an FC attached to a requirement constraint, so that with
    fulfilled requirement constraints the collected expression has the full nesting of the source (brackets inside brackets on both sides)"""
    rng = ctx.rng
    rcs, fcs = ["1", "2", "3", "2001"], ["901", "902", "903", "999"]

    def leaf():
        f = ("L", rng.choice(fcs))
        return f if rng.random() < 0.5 else ("then", ("L", rng.choice(rcs)), f)

    def tree(n):
        if n == 1:
            return leaf()
        i = rng.randint(1, n - 1)
        return (rng.choice(("and", "or", "xor")), tree(i), tree(n - i))

    out = []
    for _ in range(150 if ctx.quick else 3000):
        t = tree(rng.randint(4, 9))
        rk = sorted({k for k in exprs.leaves(t) if exprs.kind(k) == "rc"})
        out.append((t, {k: "FULFILLED" for k in rk}))
        if rng.random() < 0.3:
            out.append((t, {k: rng.choice(evalcorr.STATES) for k in rk}))
    return out


def _nodes(t):
    yield t
    if t[0] != "L":
        yield from _nodes(t[1])
        yield from _nodes(t[2])


def _rd_as_tree(f):
    return ("L", f[1]) if f[0] == "K" else (f[0], _rd_as_tree(f[1]), _rd_as_tree(f[2]))


def replay(path):
    return evalcorr.replay_eval(path)
