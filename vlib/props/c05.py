"""C05 -- hints, format constraints, brackets and operand order never change the requirement."""
import itertools

from vlib import evalcorr, exprs
from vlib.props import c04
from vlib.runner import finish

STATES = evalcorr.STATES


def positions(t, path=()):
    yield path, t
    if t[0] != "L":
        yield from positions(t[1], path + (1,))
        yield from positions(t[2], path + (2,))


def replace(t, path, new):
    if not path:
        return new
    lst = list(t)
    lst[path[0]] = replace(t[path[0]], path[1:], new)
    return tuple(lst)


def parent_op(t, path):
    if not path:
        return None
    cur = t
    for p in path[:-1]:
        cur = cur[p]
    return cur[0]


SPELL = {"and": ("U", "u", "∧"), "or": ("O", "o", "∨"), "xor": ("X", "x", "⊻")}
LEVEL = {"or": 0, "xor": 1, "and": 2, "then": 3, "L": 4}


def bracketed(t, rng):
    """string with redundant brackets around random sub-expressions; every operator in a spelling of its own (letter in either case / symbol)"""
    if t[0] == "L":
        s = f"[{t[1]}]"
    else:
        a, b = bracketed(t[1], rng), bracketed(t[2], rng)
        if t[1][0] != "L":
            a = f"({a})"
        if t[2][0] != "L":
            b = f"({b})"
        s = f"{a}{b}" if t[0] == "then" else f"{a} {rng.choice(SPELL[t[0]])} {b}"
    if rng.random() < 0.4:
        s = f"({s})"
    return s


def minimal(t, rng):
    """the expression with ONLY the brackets the documented precedence needs (an operand is bracketed iff it binds looser than, or -- to keep the
    tree -- as loose as, its parent), operators in mixed spellings: the redundant brackets of the fully bracketed form are the ones left out"""
    if t[0] == "L":
        return f"[{t[1]}]"
    out = []
    for side, c in ((1, t[1]), (2, t[2])):
        x = minimal(c, rng)
        if LEVEL[c[0]] < LEVEL[t[0]] or (LEVEL[c[0]] == LEVEL[t[0]] and c[0] != "L"):
            x = f"({x})"
        out.append(x)
    return f"{out[0]}{out[1]}" if t[0] == "then" else f"{out[0]} {rng.choice(SPELL[t[0]])} {out[1]}"


def rotations(t, path=()):
    """the same run of one operator grouped the other way: (a op b) op c <-> a op (b op c), at every node"""
    if t[0] in ("and", "or", "xor"):
        op = t[0]
        if t[1][0] == op:
            yield path, (op, t[1][1], (op, t[1][2], t[2])), (t[1][1], t[1][2], t[2])
        if t[2][0] == op:
            yield path, (op, (op, t[1], t[2][1]), t[2][2]), (t[1], t[2][1], t[2][2])
    if t[0] != "L":
        for i in (1, 2):
            for p, r, ops in rotations(t[i], ()):
                yield path + (i,) + p, r, ops


def hint_fc_corner(op, operands):
    """the one place where the grouping inside a run decides about validity (DESIGN.md 7, I-C05; Coq: C05_run_grouping_can_change_validity): a run of
    O or X over operands without a requirement constraint in which a single hint and a single format constraint end up as direct partners"""
    if op not in ("or", "xor") or any(exprs.carries(x) for x in operands):
        return False
    cls = ["H" if exprs.isleaf(x, "hint") else "F" if exprs.isleaf(x, "fc") else "N" for x in operands]
    hf = lambda a, b: {a, b} == {"H", "F"}
    return hf(cls[0], cls[1]) != hf(cls[1], cls[2])


def small_scope_runs():
    """every run of three operands over the four classes of operands (hint, format constraint, neutral compound, requirement constraint), grouped to the left"""
    reps = {"H": ["501", "502", "503"], "F": ["901", "902", "903"], "R": ["1", "2", "3"]}
    out = []
    for op in ("and", "or", "xor"):
        for cls in itertools.product("HFNR", repeat=3):
            xs = [("and", ("L", "50" + str(4 + i)), ("L", "90" + str(4 + i))) if c == "N" else ("L", reps[c][i]) for i, c in enumerate(cls)]
            out.append((op, (op, xs[0], xs[1]), xs[2]))
            out.append((op, xs[0], (op, xs[1], xs[2])))
    return out


def run(ctx):
    from vlib import evalimpl
    from ahbicht.expressions.condition_expression_parser import parse_condition_expression_to_tree

    built, cases = c04.common(ctx, "Props/C05.vo")
    c04.correspondence(ctx, cases, "C05", levels=("node",))
    trees = {}
    for t, _ in cases:
        if exprs.dom(t) and exprs.valid(t):
            trees.setdefault(exprs.show(t), t)
    names = sorted(trees)
    ctx.rng.shuffle(names)
    names = names[: 500 if ctx.quick else 6000]
    n_eval, n_rel = 0, 0
    n_rc_level = [0]
    for name in names:
        t = trees[name]
        rk = sorted({k for k in exprs.leaves(t) if exprs.kind(k) == "rc"})
        rhos = list(exprs.assignments(rk, STATES)) if len(rk) <= 2 else [{k: ctx.rng.choice(STATES) for k in rk} for _ in range(6)]
        variants = []
        for path, sub in positions(t):
            pop = parent_op(t, path)
            if pop in (None, "and", "or", "xor"):
                variants.append(("hint-and", replace(t, path, ("and", sub, ("L", "503")))))
            if exprs.carries(sub):
                variants.append(("attach-fc", replace(t, path, ("then", sub, ("L", "903")))))
            if sub[0] in ("and", "or", "xor"):
                variants.append(("swap", replace(t, path, (sub[0], sub[2], sub[1]))))
        base = {}
        shared = evalcorr.to_lark(t)   # ONE tree object for all assignments (parse once, evaluate many times); the variants are fresh trees
        for rho in rhos:
            base[tuple(rho.items())] = evalcorr.eval_node_outcome_on(shared, t, rho)
            n_eval += 1
        for kind_, t2 in variants:
            n_rel += 1
            for rho in rhos:
                got = evalcorr.eval_node_outcome(t2, rho)
                n_eval += 1
                want = base[tuple(rho.items())]
                if got != want:
                    ctx.fail(f"{name}|{kind_}|{exprs.show(t2)}|{sorted(rho.items())}", {"expression": name, "transformed": exprs.show(t2), "rc": rho},
                             f"{want}", f"{got}", f"oracle: {kind_} changed the requirement outcome / validity")
                    break
        # the same relations on the outcome requirement_constraint_evaluation REPORTS (fulfilled, conditional) -- the mapping from the state of the root to
        # the reported outcome is part of what "the requirement outcome" is
        if n_rc_level[0] < (120 if ctx.quick else 2500):
            n_rc_level[0] += 1
            state_to_outcome = {"FULFILLED": (True, True), "NEUTRAL": (True, False), "UNFULFILLED": (False, True), "UNKNOWN": (None, None)}
            for rho in rhos[:5]:
                b = base[tuple(rho.items())]
                if b[0] != "ok":
                    continue
                want = ("ok", state_to_outcome[b[1]])
                for kind_, t2 in [("the expression itself", t)] + variants[:: max(1, len(variants) // 4)]:
                    got = evalcorr.eval_rc_outcome(t2, rho)
                    n_eval += 1
                    if got != want:
                        ctx.fail(f"{name}|reported|{kind_}|{exprs.show(t2)}|{sorted(rho.items())}", {"expression": name, "transformed": exprs.show(t2), "rc": rho, "level": "requirement_constraint_evaluation"},
                                 f"{want} (the outcome the state {b[1]} of the untransformed expression stands for)", f"{got}",
                                 f"oracle: {kind_}: the outcome reported by requirement_constraint_evaluation changed / does not follow the state")
                        break
        # redundant brackets (through the parser): more of them, and only those the precedence needs
        for s2 in (bracketed(t, ctx.rng), minimal(t, ctx.rng)):
            try:
                t2 = exprs.from_lark(parse_condition_expression_to_tree(s2))
            except BaseException as e:  # pylint: disable=broad-except
                t2 = None
                ctx.fail(f"{name}|brackets-parse", {"expression": name, "transformed": s2}, "parses", repr(e), "oracle: redundant brackets")
            if t2 is not None:
                n_rel += 1
                for rho in rhos[:3]:
                    n_eval += 1
                    if evalcorr.eval_node_outcome(t2, rho) != base[tuple(rho.items())]:
                        ctx.fail(f"{name}|brackets|{s2}", {"expression": name, "transformed": s2, "rc": rho}, str(base[tuple(rho.items())]), "differs", "oracle: redundant brackets changed the outcome")
        # the grouping inside a run of one operator (what C01 leaves open; brackets inside a run choose it): same outcome whenever both groupings are valid
        n_eval += regrouping(ctx, name, t, rhos, base, parse_condition_expression_to_tree)
        # definite outcomes are stable under every resolution of UNKNOWN
        for rho in rhos:
            unk = [k for k, v in rho.items() if v == "UNKNOWN"]
            b = base[tuple(rho.items())]
            if unk and b[0] == "ok" and b[1] != "UNKNOWN":
                for vals in itertools.product(("FULFILLED", "UNFULFILLED"), repeat=len(unk)):
                    rho2 = dict(rho, **dict(zip(unk, vals)))
                    n_eval += 1
                    g = evalcorr.eval_node_outcome(t, rho2)
                    if g != b:
                        ctx.fail(f"{name}|refine|{sorted(rho.items())}", {"expression": name, "rc": rho2, "partial": rho}, str(b), str(g), "oracle: definite outcome changed when UNKNOWN was resolved")
    n_runs = 0
    for t in small_scope_runs():
        if exprs.dom(t) and exprs.valid(t):
            rk = sorted({k for k in exprs.leaves(t) if exprs.kind(k) == "rc"})
            rhos = list(exprs.assignments(rk, STATES)) if len(rk) <= 2 else [dict(zip(rk, v)) for v in itertools.product(STATES, repeat=len(rk))][::2]
            base = {tuple(rho.items()): evalcorr.eval_node_outcome(t, rho) for rho in rhos}
            n_eval += len(rhos) + regrouping(ctx, exprs.show(t), t, rhos, base, parse_condition_expression_to_tree)
            n_runs += 1
    ctx.notes["regrouping"] = {"small_scope_runs_of_three": n_runs, "rule": "every run of three operands over {hint, format constraint, neutral compound, requirement constraint} x {U, O, X}, "
                               "both groupings; plus every rotation inside the sampled corpus expressions; expected: same requirement outcome whenever both groupings are valid, "
                               "and validity differs only in the hint/format-constraint corner of I-C05"}
    ctx.add_eval(n_eval)
    ctx.coverage["distinct_nontrivial"] = n_rel
    ctx.coverage["rule"] = ("metamorphic relations executed on ahbicht: for sampled valid in-domain expressions, EVERY position at which hint-and / attach-fc / swap applies "
                            "x assignments (all 3^m for m<=2), redundant brackets through the parser, all resolutions of UNKNOWN for definite outcomes; "
                            "distinct_nontrivial counts distinct (expression, position, transformation) relations checked")
    ctx.sample({"expression": names[0], "example_variant": "hint-and at every U/O/X operand, attach-fc at every RC-carrying sub-expression, swap at every U/O/X"})
    # the relations presuppose that an evaluation sees ITS assignment: several evaluations with different assignments in flight at once on ahbicht's own
    # content-evaluation-result based evaluators each report what they report alone (implementation-side oracle shared with C08 / C12)
    from vlib import cerconc, evalimpl

    ctx.add_eval(cerconc.mixed_oracle(ctx, "C05"))
    evalimpl._configured = False  # pylint: disable=protected-access
    from vlib import latency

    ctx.add_eval(latency.rc_latency_oracle(ctx, cases, 12 if ctx.quick else 150,
                                           "oracle: the requirement outcome does not depend on how long the single asynchronous evaluators take"))
    return finish(ctx, assumptions=["node-level evaluation through evaluate_requirement_constraint_tree with dict-based evaluators"])


def regrouping(ctx, name, t, rhos, base, parse):
    n = 0
    for path, rot, operands in rotations(t):
        t2 = replace(t, path, rot)
        if not exprs.valid(t2):
            # the structural criterion (C06) says the other grouping is invalid: that happens in the hint/format-constraint corner only
            cur = t
            for p_ in path:
                cur = cur[p_]
            if not hint_fc_corner(cur[0], operands):
                ctx.fail(f"{name}|regroup-validity|{exprs.show(t2)}", {"expression": name, "transformed": exprs.show(t2)}, "still valid", "invalid by the structural criterion",
                         "oracle: regrouping a run of one operator changed the validity outside the hint / format-constraint corner")
            continue
        # through the parser: brackets that pin the other grouping
        try:
            t3 = exprs.from_lark(parse(minimal(t2, ctx.rng)))
        except BaseException as e:  # pylint: disable=broad-except
            ctx.fail(f"{name}|regroup-parse|{exprs.show(t2)}", {"expression": name, "transformed": exprs.show(t2)}, "parses", repr(e), "oracle: brackets inside a run")
            continue
        for rho in rhos[:4]:
            n += 2
            want = base[tuple(rho.items())]
            for tt in (t2, t3):
                got = evalcorr.eval_node_outcome(tt, rho)
                if got != want:
                    ctx.fail(f"{name}|regroup|{exprs.show(tt)}|{sorted(rho.items())}", {"expression": name, "transformed": exprs.show(tt), "rc": rho}, f"{want}", f"{got}",
                             "oracle: the grouping inside a run of one operator (brackets inside the run) changed the requirement outcome although both groupings are valid")
                    break
    return n


def replay(path):
    return evalcorr.replay_eval(path)
