"""C02 -- parsers accept exactly the documented language; everything else is a SyntaxError."""
import asyncio

from vlib import pyparse, runner, strings
from vlib.props import c01
from vlib.runner import finish, gtext, prepare

INDICATORS = ["Muss", "M", "muss", "m", "Soll", "S", "s", "Kann", "K", "k", "X", "O", "U", "x", "o", "u", "MUSS", "kANN"]


def streams(ctx):
    """(string, oracle tokens or None) for the condition language"""
    rng = ctx.rng
    out = [(s, None) for s in strings.regression_strings()]
    for toks in strings.token_sequences(4 if ctx.quick else 5):
        out.append(c01.render(rng, toks))
    for _ in range(400 if ctx.quick else 6000):
        out.append(c01.render(rng, strings.random_wf_tokens(rng, rng.randint(1, 10))))
    nearly = []
    for s, _ in list(out):
        if rng.random() < (0.25 if ctx.quick else 0.5):
            nearly.append((strings.mutate(rng, s), None))
    out += nearly
    out += [(s, None) for s in strings.MALFORMED + strings.MALFORMED_META]
    for _ in range(300 if ctx.quick else 5000):
        out.append((strings.garbage(rng, rng.randint(1, 14)), None))
    return out


def classify(fn):
    from vlib import impl

    try:
        return ("ok", fn())
    except BaseException as e:  # pylint: disable=broad-except
        if isinstance(e, (KeyboardInterrupt, SystemExit, MemoryError, RecursionError)):
            raise
        return ("exn", impl.exc_class(e))


def run(ctx):
    from vlib import evalimpl
    from lark import Tree
    from ahbicht.content_evaluation import is_valid_expression
    from ahbicht.expressions.ahb_expression_parser import parse_ahb_expression_to_single_requirement_indicator_expressions as parse_ahb
    from ahbicht.expressions.condition_expression_parser import parse_condition_expression_to_tree as parse_cond
    from ahbicht.expressions.expression_resolver import parse_expression_including_unresolved_subexpressions as resolve

    built = prepare(ctx, ["Gen_grammar", "Gen_ahbgrammar"], ["Props/C02.vo", "Corr/Parse.vo", "Corr/Ahb.vo"])
    evalimpl.set_cer()
    cond = streams(ctx)
    # --- condition parser: correspondence + oracle (accepted iff the independent parser accepts its tokens)
    terms, n_nontrivial = [], 0
    for s, otoks in cond:
        r = c01.parse_impl(s)
        terms.append(f"({gtext(s)}, {c01.obs_term(r)})")
        ctx.dist("condition.characters", ctx.bucket(len(s)))
        ctx.dist("condition.stream", "tokens known" if otoks is not None else "mutated / malformed / garbage")
        ctx.dist("condition.outcome", "tree" if r[0] == "ok" else r[1])
        if r[0] == "exn" and r[1] != "SyntaxErr":
            ctx.fail(f"cond|{s}", {"entry": "parse_condition_expression_to_tree", "string": s}, "Tree or SyntaxError", r[1], "oracle: only SyntaxError may escape")
        acc = None
        if otoks is not None:
            try:
                pyparse.parse(otoks)
                acc = True
            except pyparse.Reject:
                acc = False
            n_nontrivial += 1
        elif isinstance(s, str):
            acc = pyparse.accepts(s)   # any string: an independent reading of the documented lexical rules and grammar
        if acc is not None:
            if acc != (r[0] == "ok"):
                ctx.fail(f"cond-accept|{s}", {"entry": "parse_condition_expression_to_tree", "string": s}, "accepted" if acc else "SyntaxError", "accepted" if r[0] == "ok" else r[1], "oracle: accepted language = documented language")
    n, bad, err = runner.run_case_files("C02", c01.IMPORTS, "parse_case", "parse_check", terms)
    if err:
        ctx.broke("correspondence (parser) could not be evaluated in Coq", err)
    for i in bad[:20]:
        ctx.broke("correspondence mismatch (parser): model and Lark differ", f"{cond[i][0]!r} -> {terms[i][-300:]}")
    ctx.notes["correspondence"] = {"parser": {"cases": n, "mismatches": len(bad)}}
    ctx.add_eval(n)
    # --- AHB parser, resolver, validity check: outcome classes on AHB-shaped strings
    ahb = []
    rng = ctx.rng
    pool = [s for s, _ in cond]
    for _ in range(600 if ctx.quick else 8000):
        k = rng.choice((1, 1, 1, 2, 3))
        parts = []
        for _ in range(k):
            parts.append(rng.choice(INDICATORS) + rng.choice(("", " ", "  ")) + rng.choice(pool))
        s = rng.choice(("", "", " ")).join(parts)
        if rng.random() < 0.2:
            s += rng.choice(("", " ")) + rng.choice(INDICATORS)
        if rng.random() < 0.2:
            s = strings.mutate(rng, s)
        ahb.append(s)
    # AHB expressions of the documented forms, assembled from condition expressions the independent acceptor accepts
    good = [s for s in pool if isinstance(s, str) and len(s) < 60 and pyparse.accepts(s) is True]
    MODAL = [i for i in INDICATORS if i[0] in "MSKmsk"]
    PREFIX = [i for i in INDICATORS if i[0] in "XOUxou"]
    for _ in range(300 if ctx.quick else 4000):
        if not good:
            break
        form = rng.choice(("modal", "modal", "modal+bare", "prefix"))
        if form == "prefix":
            ahb.append(rng.choice(PREFIX) + rng.choice(("", " ")) + rng.choice(good))
        else:
            s = "".join(rng.choice(MODAL) + rng.choice(("", " ")) + rng.choice(good) for _ in range(rng.choice((1, 1, 2, 3, 4))))
            ahb.append(s + (rng.choice(MODAL) if form == "modal+bare" else ""))
    # indicator structures that are NOT documented, assembled from well-formed condition expressions: a prefix-operator part followed by modal-mark parts
    for _ in range(120 if ctx.quick else 1500):
        if not good:
            break
        s = rng.choice(PREFIX) + rng.choice(("", " ")) + rng.choice(good)
        s += "".join(rng.choice(("", " ")) + rng.choice(MODAL) + rng.choice(("", " ")) + rng.choice(good + [""]) for _ in range(rng.choice((1, 1, 2))))
        ahb.append(s)
    ahb += ["Muss [1] U", "Muss[1]U", "Soll ([1]", "Kann [1] [", "X [1]O", "Mus[2]", "MU[1]", "MUU[1]", "Muss[2]C[3]", "Muſſ[1]", "K[1]", "", " ", "Muss", " Muss[1]",
            "Muss[1] ", "Muss [1]\x0bSoll[2]", "Muss[1]Soll", "Muss[1]X", "X", "x", "XX", "Muss[1P]", "Muss[UB1]", "Muss[1P0..1]", "Muss [1] Soll [2] Kann"]
    ahb += strings.MALFORMED_META
    conf = strings.confusable_indicators()   # indicators respelled with characters that case mapping / normalisation folds onto their letters
    ahb += conf
    for _ in range(100 if ctx.quick else 1500):
        ahb.append(rng.choice(INDICATORS) + " " + strings.garbage(rng, rng.randint(1, 8)))
    ahb += pool[:: max(1, len(pool) // (300 if ctx.quick else 3000))]
    n_ahb = 0
    ahb_terms, res_terms = [], []
    AIMPORTS = "From Ahb Require Import Model.Prelude Model.Grammar Gen.Gen_grammar Gen.Gen_ahbgrammar Model.Lex Model.EvalAhb Model.Ahb Corr.Parse Corr.Ahb."
    for s in ahb:
        _o = classify(lambda: parse_ahb(s))
        ctx.dist("ahb.characters", ctx.bucket(len(s)))
        ctx.dist("ahb.outcome", "tree" if _o[0] == "ok" else _o[1])
        ahb_terms.append(f"({gtext(s)}, {ahb_obs(classify(lambda: parse_ahb(s)))})")
        res_terms.append(f"({gtext(s)}, {resolve_obs(classify(lambda: asyncio.run(resolve(s, resolve_packages=False, replace_time_conditions=False))))})")
    for s in ahb:
        n_ahb += 1
        for name, fn in (("parse_ahb_expression_to_single_requirement_indicator_expressions", lambda: parse_ahb(s)),
                         ("parse_expression_including_unresolved_subexpressions", lambda: asyncio.run(resolve(s)))):
            r = classify(fn)
            if r[0] == "ok" and not isinstance(r[1], Tree):
                ctx.fail(f"{name}|{s}", {"entry": name, "string": s}, "Tree or SyntaxError", repr(r[1])[:80], "oracle: result is not a tree")
            if r[0] == "exn" and r[1] != "SyntaxErr":
                ctx.fail(f"{name}|{s}", {"entry": name, "string": s}, "Tree or SyntaxError", r[1], "oracle: only SyntaxError may escape")
        # an AHB expression of one of the documented forms (judged by an independent reading) must be accepted by the AHB parser and the resolver
        if pyparse.ahb_accepts(s) is True:
            ctx.dist("ahb.stream", "documented form (independent acceptor)")
            for name, fn in (("parse_ahb_expression_to_single_requirement_indicator_expressions", lambda: parse_ahb(s)),
                             ("parse_expression_including_unresolved_subexpressions", lambda: asyncio.run(resolve(s)))):
                r = classify(fn)
                if r[0] != "ok":
                    ctx.fail(f"ahb-accept|{name}|{s}", {"entry": name, "string": s}, "accepted (an AHB expression of a documented form)", r[1],
                             "oracle: accepted language = documented language (AHB expressions)")
        else:
            ctx.dist("ahb.stream", "other")
        # ... and a prefix-operator part stands alone: nothing that begins with X/O/U and goes on with a modal mark is an AHB expression
        if pyparse.ahb_must_reject(s):
            for name, fn in (("parse_ahb_expression_to_single_requirement_indicator_expressions", lambda: parse_ahb(s)),
                             ("parse_expression_including_unresolved_subexpressions", lambda: asyncio.run(resolve(s)))):
                r = classify(fn)
                if not (r[0] == "exn" and r[1] == "SyntaxErr"):
                    ctx.fail(f"ahb-reject|{name}|{s}", {"entry": name, "string": s}, "SyntaxError (a prefix-operator part followed by a modal mark is none of the documented forms)",
                             "accepted" if r[0] == "ok" else r[1], "oracle: nothing malformed is silently accepted (indicator structure of AHB expressions)")
        # an AHB expression whose indicator structure is fine but whose condition part is malformed must be rejected
        pa = classify(lambda: parse_ahb(s))
        if pa[0] == "ok" and isinstance(pa[1], Tree):
            texts = [str(ch.children[1]) for ch in pa[1].children if len(ch.children) == 2]
            bad_part = next((t for t in texts if classify(lambda: parse_cond(t))[0] == "exn"), None)
            if bad_part is not None and classify(lambda: parse_cond(s))[0] == "exn":
                for rpk in (False, True):
                    r0 = classify(lambda: asyncio.run(resolve(s, resolve_packages=rpk)))
                    if not (r0[0] == "exn" and r0[1] == "SyntaxErr"):
                        ctx.fail(f"part-malformed|{s}", {"entry": "parse_expression_including_unresolved_subexpressions", "string": s, "malformed_part": bad_part},
                                 "SyntaxError (a condition part is not a condition expression)", "accepted" if r0[0] == "ok" else r0[1], "oracle: malformed condition part inside an AHB expression is rejected")
                        break
        rr = classify(lambda: asyncio.run(resolve(s)))
        rv = classify(lambda: asyncio.run(is_valid_expression(s, lambda cer: None)))
        if rr[0] == "exn" and rr[1] == "SyntaxErr":
            if not (rv[0] == "ok" and rv[1][0] is False and isinstance(rv[1][1], str)):
                ctx.fail(f"is_valid|{s}", {"entry": "is_valid_expression", "string": s}, "(False, message)", str(rv)[:120], "oracle: the validity check reports malformed input as (False, message)")
    ctx.add_eval(2 * n_ahb)
    for tag, ctype, chk, terms in (("C02_ahb", "ahbparse_case", "ahbparse_check", ahb_terms), ("C02_res", "resolvestr_case", "resolvestr_check", res_terms)):
        n2, bad2, err2 = runner.run_case_files(tag, AIMPORTS, ctype, chk, terms, shard=300)
        if err2:
            ctx.broke(f"correspondence ({ctype}) could not be evaluated in Coq", err2)
        for i in bad2[:10]:
            ctx.broke(f"correspondence mismatch ({ctype}): model and ahbicht differ", f"{ahb[i]!r} -> {terms[i][-300:]}")
        ctx.notes["correspondence"][ctype] = {"cases": n2, "mismatches": len(bad2)}
        ctx.add_eval(n2)
    ctx.coverage["distinct_nontrivial"] = n_nontrivial
    ctx.coverage["rule"] = ("three streams: token sequences up to length 4/5 (exhaustive) and random well-formed expressions; nearly well-formed (one character deleted / "
                            "duplicated / swapped / inserted) plus a fixed malformed corpus (empty brackets, unbalanced, odd white space, non-ASCII digits, ...); garbage over a "
                            "45-symbol alphabet. Condition parser: outcome class and flattened tree vs the model, acceptance vs an independent parser. AHB parser / resolver / "
                            "validity check: outcome class on AHB-shaped strings built from the same pool. non-trivial = strings with a known token list (acceptance decided independently)")
    ctx.notes["bounds"] = "strings are shorter than 64 tokens / bracket depth 40; CPython recursion depth and memory are outside the model"
    ctx.sample({"string": cond[500][0]})
    ctx.sample({"ahb_string": ahb[3]})
    return finish(ctx, assumptions=["Lark's dynamic Earley lexer on the AHB grammar is modelled by the deterministic scanner of Model/Ahb.v (longest regex match per expected terminal), validated by this correspondence",
                                    "character classes / case-insensitive letter sets / \\w of the three AHB terminals are computed by the translator with Python's re on every code point"])


def ahb_obs(res):
    """Lark tree of the AHB grammar -> Gallina (list rawpart)"""
    from lark import Token, Tree

    tag, v = res
    if tag == "exn":
        return f"(Exn {v})"
    if not isinstance(v, Tree) or v.data != "ahb_expression":
        return "(Exn OtherErr)"
    parts = []
    for ch in v.children:
        toks = ch.children
        kind = "TokMM" if toks[0].type == "MODAL_MARK" else "TokPO"
        if ch.data == "single_requirement_indicator_expression" and len(toks) == 2 and all(isinstance(t, Token) for t in toks):
            parts.append(f"RP ({kind} {gtext(str(toks[0]))}) (Some {gtext(str(toks[1]))})")
        elif ch.data == "requirement_indicator" and len(toks) == 1:
            parts.append(f"RP ({kind} {gtext(str(toks[0]))}) None")
        else:
            return "(Exn OtherErr)"
    return "(Ok [" + "; ".join(parts) + "])"


def resolve_obs(res):
    from lark import Token, Tree

    tag, v = res
    if tag == "exn":
        return f"(Exn {v})"
    try:
        if isinstance(v, Tree) and v.data == "ahb_expression":
            parts = []
            for ch in v.children:
                toks = ch.children
                kind = "TokMM" if toks[0].type == "MODAL_MARK" else "TokPO"
                if len(toks) == 2:
                    parts.append(f"({kind} {gtext(str(toks[0]))}, Some {strings.lark_to_gallina(toks[1])})")
                else:
                    parts.append(f"({kind} {gtext(str(toks[0]))}, None)")
            return "(Ok (OAhb [" + "; ".join(parts) + "]))"
        return f"(Ok (OCond {strings.lark_to_gallina(v)}))"
    except (ValueError, AttributeError, IndexError):
        return "(Exn OtherErr)"


def replay(path):
    import json

    from ahbicht.content_evaluation import is_valid_expression
    from ahbicht.expressions.ahb_expression_parser import parse_ahb_expression_to_single_requirement_indicator_expressions as parse_ahb
    from ahbicht.expressions.condition_expression_parser import parse_condition_expression_to_tree as parse_cond
    from ahbicht.expressions.expression_resolver import parse_expression_including_unresolved_subexpressions as resolve
    from vlib import evalimpl

    evalimpl.set_cer()
    r = json.load(open(path, encoding="utf-8"))
    s = r["input"]["string"]
    print("string", repr(s), "expected", r["expected"])
    print(" condition parser:", classify(lambda: parse_cond(s))[0:2][0], classify(lambda: parse_cond(s))[1] if classify(lambda: parse_cond(s))[0] == "exn" else "")
    print(" ahb parser      :", classify(lambda: parse_ahb(s))[1] if classify(lambda: parse_ahb(s))[0] == "exn" else "ok")
    print(" resolver        :", classify(lambda: asyncio.run(resolve(s)))[1] if classify(lambda: asyncio.run(resolve(s)))[0] == "exn" else "ok")
    print(" is_valid        :", classify(lambda: asyncio.run(is_valid_expression(s, lambda cer: None))))
    return 0
