"""C18 -- key extraction and enumeration of the possible content evaluation results.

tie T : Gen_ranges.node_type_of_key vs derive_condition_node_type on "0".."3000", large, package-like and malformed keys
tie C : Model/Keys.v vs extract_categorized_keys_from_tree (trees as parsed / after resolution, key lists, sanitize on/off),
        CategorizedKeyExtract.__add__, generate_possible_content_evaluation_results (ordered lists)
oracle: the statement read directly on ahbicht (documented ranges, once/ascending, union, resolution, Cartesian product)
"""
import asyncio
import itertools
import json

from vlib import runner, strings
from vlib.runner import finish, gbool, glist, gtext, prepare

IMPORTS = "From Ahb Require Import Model.Prelude Model.Grammar Gen.Gen_logic Gen.Gen_ranges Model.Lex Model.Keys Corr.Keys."

BOUNDARY = [0, 1, 499, 500, 900, 901, 999, 1000, 1999, 2000, 2499, 2500]
# malformed keys inside the modelled domain of int(): ASCII digits only (" 12", "+1", "1_0", "٣" are accepted by Python's
# int() but are outside the model, see Model/Prelude.v; Lark's CONDITION_KEY never produces them)
MALFORMED_KEYS = ["", "abc", "1a", "a1", "-1", "1.5", "0x1", "P", "1P", "12P", "0P", "2500P", "12p", "P12", "1P2", "UB1", "[1]", "1 2", "12PP", "xP"]
LARGE_KEYS = ["3001", "9999", "10000", "12345", "99999", "2147483648", "12345678901234567890", "00", "000", "01", "007", "0499", "0500", "00999", "02000"]
PACKAGES = {"1P": "[3] U [905]", "12P": "[2000] O [501]", "7P": "[499][901]", "123P": "([4] X [5]) U [950]",
            "20P": "[UB1] U [5]", "21P": "[UB3]", "22P": "[6] O ([UB2] U [12P])"}
# what the time conditions are replaced with (docstring of TimeConditionTransformer)
TIME_KEYS = {"UB1": ["932"], "UB2": ["934"], "UB3": ["932", "492", "934", "493"]}


# ---------------------------------------------------------------- the statement's ranges (oracle side, from the text)
def doc_category(n):
    if 1 <= n <= 499 or 2000 <= n <= 2499:
        return "rc"
    if 500 <= n <= 900:
        return "hint"
    if 901 <= n <= 999:
        return "fc"
    return None


FIELD = {"rc": "requirement_constraint_keys", "hint": "hint_keys", "fc": "format_constraint_keys"}


# ---------------------------------------------------------------- Gallina printing
def grec(r):
    return ("{| hint_keys := %s; fc_keys := %s; rc_keys := %s; pkg_keys := %s; time_keys := %s |}"
            % tuple(glist(x, gtext) for x in (r.hint_keys, r.format_constraint_keys, r.requirement_constraint_keys, r.package_keys, r.time_condition_keys)))


def gres(c):
    hints = glist(c.hints.items(), lambda kv: f"({gtext(kv[0])}, {gtext(kv[1])})")
    fcs = glist(c.format_constraints.items(), lambda kv: f"({gtext(kv[0])}, {gbool(kv[1].format_constraint_fulfilled)})")
    rcs = glist(c.requirement_constraints.items(), lambda kv: f"({gtext(kv[0])}, C_{kv[1].name})")
    if c.packages:
        raise ValueError("packages of a generated result are not empty")
    return f"{{| g_hints := {hints}; g_fc := {fcs}; g_rc := {rcs} |}}"


def observe(fn, show):
    """('ok', value, gallina) or ('exn', class, gallina)"""
    from vlib import impl

    try:
        v = fn()
    except BaseException as e:  # pylint: disable=broad-except
        if isinstance(e, (KeyboardInterrupt, SystemExit, MemoryError)):
            raise
        c = impl.exc_class(e)
        return ("exn", c, f"(Exn {c})")
    return ("ok", v, f"(Ok {show(v)})")


def mk_extract(hint=(), fc=(), rc=(), pkg=(), time=()):
    from ahbicht.models.categorized_key_extract import CategorizedKeyExtract

    return CategorizedKeyExtract(hint_keys=list(hint), format_constraint_keys=list(fc), requirement_constraint_keys=list(rc),
                                 package_keys=list(pkg), time_condition_keys=list(time))


# ---------------------------------------------------------------- input generation
def rand_key(rng, invalid=0.04):
    r = rng.random()
    if r < invalid:
        return str(rng.choice((0, 1000, 1500, 1999, 2500, 2501, 3000, 12345)))
    if r < 0.35:
        return str(rng.choice([b for b in BOUNDARY if doc_category(b)]))
    lo, hi = rng.choice(((1, 499), (1, 30), (500, 900), (901, 999), (2000, 2499), (1, 2499)))
    n = rng.randint(lo, hi)
    while doc_category(n) is None:
        n = rng.randint(lo, hi)
    return str(n)


def rand_atom(rng, pkgs=None, invalid=0.04, leading_zero=0.0):
    ws = lambda: "".join(rng.choice(" \t") for _ in range(rng.choice((0, 0, 0, 1, 2))))
    r = rng.random()
    if r < 0.72:
        k = rand_key(rng, invalid)
        if rng.random() < leading_zero:
            k = "0" * rng.choice((1, 2)) + k
        return f"[{ws()}{k}{ws()}]"
    if r < 0.86:
        if pkgs:
            return f"[{ws()}{rng.choice(sorted(pkgs))}{ws()}]"
        rep = f"{rng.choice((0, 1, 10))}..{rng.choice((1, 5, 17))}" if rng.random() < 0.3 else ""
        return f"[{ws()}{rng.choice((1, 2, 12, 45, 100, 999, 10, 9))}P{ws()}{rep}{ws()}]"
    return f"[{ws()}UB{rng.choice('123')}{ws()}]"


def rand_expression(rng, n_atoms, **kw):
    toks = strings.random_wf_tokens(rng, n_atoms)
    out = []
    for t in toks:
        if t == "A":
            out.append(rand_atom(rng, **kw))
        elif t in strings.OPSP:
            out.append(rng.choice(strings.OPSP[t]))
        else:
            out.append(t)
        if rng.random() < 0.3:
            out.append(rng.choice(" \t") * rng.choice((1, 1, 2)))
    return "".join(out)


def tree_tokens(tree):
    from lark import Token

    return [(t.type, str(t)) for t in tree.scan_values(lambda v: isinstance(v, Token))]


def key_inj(keys):
    return len({int(k) for k in keys}) == len(set(keys))


# ---------------------------------------------------------------- oracle pieces (implementation only)
def oracle_extract(ctx, what, inp, tokens, r):
    """r: sanitized extract of a tree with these tokens (all condition keys in range): once, ascending, one category"""
    cond = [v for t, v in tokens if t == "CONDITION_KEY"]
    for cat, field in FIELD.items():
        got = getattr(r, field)
        want = sorted({k for k in cond if doc_category(int(k)) == cat}, key=int)
        if got != want:
            ctx.fail(f"{what}|{field}|{inp}", inp, f"{field} = {want} (each key once, ascending, documented range)", f"{field} = {got}", "oracle: extraction lists every key once in ascending order in its category")
    for field, typ in (("package_keys", "PACKAGE_KEY"), ("time_condition_keys", "TIME_CONDITION_KEY")):
        got = getattr(r, field)
        want = sorted({v for t, v in tokens if t == typ})
        if got != want:
            ctx.fail(f"{what}|{field}|{inp}", inp, f"{field} = {want}", f"{field} = {got}", "oracle: package / time-condition keys once, sorted")


def expected_product(fcs, rcs):
    """the Cartesian product of the statement as a set of (fc assignment, rc assignment)"""
    out = set()
    for fv in itertools.product((True, False), repeat=len(fcs)):
        for rv in itertools.product(("FULFILLED", "UNFULFILLED", "UNKNOWN"), repeat=len(rcs)):
            out.add((tuple(zip(fcs, fv)), tuple(zip(rcs, rv))))
    return out


def canon_results(results):
    return [(tuple(sorted((k, v.format_constraint_fulfilled) for k, v in c.format_constraints.items())),
             tuple(sorted((k, v.name) for k, v in c.requirement_constraints.items()))) for c in results]


def oracle_generate(ctx, hints, fcs, rcs, results):
    inp = {"kind": "generate", "hint_keys": hints, "format_constraint_keys": fcs, "requirement_constraint_keys": rcs}
    key = f"generate|{','.join(fcs)}|{','.join(rcs)}"
    n, m = len(fcs), len(rcs)
    if n == 0 and m == 0:
        if results != []:
            ctx.fail(key + "|nokeys", inp, "[] (documented: nothing to enumerate without format and requirement keys)", f"{len(results)} results", "oracle: no keys")
        return
    want = {(tuple(sorted(f)), tuple(sorted(r))) for f, r in expected_product(fcs, rcs)}
    got = canon_results(results)
    if len(got) != 3 ** m * 2 ** n:
        ctx.fail(key + "|size", inp, f"{3 ** m * 2 ** n} results (3^{m} * 2^{n})", f"{len(got)} results", "oracle: size of the Cartesian product")
    elif len(set(got)) != len(got):
        ctx.fail(key + "|distinct", inp, "every combination once", f"{len(got) - len(set(got))} repeated results", "oracle: all results distinct")
    elif set(got) != want:
        extra = sorted(set(got) - want)[:2]
        ctx.fail(key + "|set", inp, "exactly the total assignments over {FULFILLED, UNFULFILLED, UNKNOWN} / {True, False}", f"unexpected results, e.g. {extra}", "oracle: set equality with the Cartesian product")
    for c in results:
        if dict(c.hints) != {h: f"Hinweis {h}" for h in hints} or c.packages:
            ctx.fail(key + "|hints", inp, "hints for exactly the hint keys, no packages", f"hints={dict(c.hints)} packages={c.packages}", "oracle: hints of a generated result")
            break


# ---------------------------------------------------------------- the check
def run(ctx):
    from vlib import evalimpl, impl  # noqa: F401
    from ahbicht.condition_node_distinction import derive_condition_node_type
    from ahbicht.expressions.condition_expression_parser import (
        extract_categorized_keys,
        extract_categorized_keys_from_tree,
        parse_condition_expression_to_tree,
    )
    from ahbicht.expressions.expression_resolver import parse_expression_including_unresolved_subexpressions

    prepare(ctx, ["Gen_ranges", "Gen_logic", "Gen_grammar"], ["Props/C18.vo", "Corr/Keys.vo"])
    rng = ctx.rng
    corr = {}
    nontrivial = 0

    # ---------- tie T: the generated node_type_of_key against derive_condition_node_type
    tkeys = [str(i) for i in range(0, 3001)] + LARGE_KEYS + MALFORMED_KEYS
    tcases = []
    for k in tkeys:
        o = observe(lambda: derive_condition_node_type(k), lambda v: "NT_" + v.name)
        tcases.append(f"({gtext(k)}, {o[2][1:-1]})")
    if ctx.notes.get("gen_status", {}).get("Gen_ranges") == "ok":
        n, bad, err = runner.run_case_files("C18_T", IMPORTS, "nt_case", "nt_check", tcases, shard=800)
        ctx.notes["translator_validation"] = {"cases": n, "mismatches": len(bad), "domain": 'keys "0".."3000", large and zero-padded numerals, package-like and malformed keys'}
        ctx.add_eval(n)
        if err:
            ctx.broke("translator validation for Gen_ranges could not be evaluated", err)
        for i in bad[:10]:
            ctx.broke("translator validation mismatch (Gen_ranges vs derive_condition_node_type)", tcases[i])

    # ---------- oracle: the documented ranges, on derive_condition_node_type and on the extraction of a one-key list / tree
    n_range = 0
    for n_ in sorted(set(range(0, 3001)) | {int(k) for k in LARGE_KEYS}):
        n_range += 1
        k = str(n_)
        cat = doc_category(n_)
        inp = {"kind": "key", "key": k}
        o = observe(lambda: extract_categorized_keys_from_tree([k], sanitize=True), str)
        o2 = observe(lambda: extract_categorized_keys_from_tree(parse_condition_expression_to_tree(f"[{k}]"), sanitize=True), str)
        for how, ob in (("key list", o), ("tree", o2)):
            if cat is None:
                if ob[0] != "exn" or ob[1] != "ValueErr":
                    ctx.fail(f"range|{k}", inp, "rejected with ValueError (outside 1-499, 500-900, 901-999, 2000-2499)", str(ob[1]), f"oracle: number ranges ({how})")
            else:
                want = mk_extract(**{cat: [k]})
                if ob[0] != "ok" or ob[1] != want:
                    ctx.fail(f"range|{k}", inp, f"exactly one category: {FIELD[cat]} = ['{k}']", str(ob[1]), f"oracle: number ranges ({how})")
    for k, typ in (("12P", "package_keys"), ("UB2", "time_condition_keys")):
        o = observe(lambda: extract_categorized_keys_from_tree(parse_condition_expression_to_tree(f"[{k}]"), sanitize=True), str)
        want = mk_extract(**{"pkg" if typ == "package_keys" else "time": [k]})
        if o[0] != "ok" or o[1] != want:
            ctx.fail(f"range|{k}", {"kind": "expr", "expression": f"[{k}]"}, f"{typ} = ['{k}']", str(o[1]), "oracle: nP packages / UBn time conditions")

    # ---------- correspondence + oracle: extraction on parsed expressions
    ecases, emeta = [], []
    n_expr = 400 if ctx.quick else 4000
    exprs_valid = []
    sizes = {}
    for i in range(n_expr):
        na = rng.choice((1, 2, 2, 3, 3, 4, 5, 6, 8, 12))
        lz = 0.3 if i % 10 == 9 else 0.0
        s = rand_expression(rng, na, invalid=0.04 if i % 3 else 0.0, leading_zero=lz)
        try:
            tree = parse_condition_expression_to_tree(s)
            gt = strings.lark_to_gallina(tree)
        except BaseException as e:  # pylint: disable=broad-except
            ctx.broke("a generated well-formed expression was not parsed", f"{s!r}: {type(e).__name__}: {e}")
            continue
        toks = tree_tokens(tree)
        cond = [v for t, v in toks if t == "CONDITION_KEY"]
        sizes[len(toks)] = sizes.get(len(toks), 0) + 1
        for san in (False, True):
            if san and not key_inj(cond):
                continue  # I-C18: "01" next to "1": the order after set + sort(key=int) is unspecified
            o = observe(lambda: extract_categorized_keys_from_tree(tree, sanitize=san), grec)
            ecases.append(f"({gt}, {gbool(san)}, {o[2][1:-1]})")
            emeta.append({"expression": s, "sanitize": san, "observed": str(o[1])})
            if san and o[0] == "ok" and lz == 0.0:
                if all(doc_category(int(k)) for k in cond):
                    oracle_extract(ctx, "extract", {"kind": "expr", "expression": s}, toks, o[1])
                    exprs_valid.append(s)
                    if len(set(cond)) > 1:
                        nontrivial += 1
            if san and o[0] == "exn" and all(doc_category(int(k)) for k in cond):
                ctx.fail(f"extract|raises|{s}", {"kind": "expr", "expression": s}, "an extract (all keys are in the documented ranges)", str(o[1]), "oracle: extraction of in-range keys must not raise")
            if san and o[0] == "ok" and not all(doc_category(int(k)) for k in cond):
                ctx.fail(f"extract|accepts|{s}", {"kind": "expr", "expression": s}, "ValueError (a key outside the documented ranges)", str(o[1]), "oracle: out-of-range keys are rejected")
    n, bad, err = runner.run_case_files("C18_E", IMPORTS, "extract_case", "extract_check", ecases, shard=300)
    corr["extract_tree"] = {"cases": n, "mismatches": len(bad)}
    ctx.add_eval(n)
    if err:
        ctx.broke("correspondence (extract) could not be evaluated in Coq", err)
    for i in bad[:10]:
        ctx.broke("correspondence mismatch (extract_categorized_keys_from_tree): model and ahbicht differ", json.dumps(emeta[i], ensure_ascii=False))

    # ---------- key lists (the other input form of extract_categorized_keys_from_tree)
    lcases, lmeta = [], []
    for i in range(80 if ctx.quick else 600):
        ks = [rand_key(rng, 0.03) for _ in range(rng.randint(0, 8))]
        if i % 20 == 0:
            ks.insert(rng.randint(0, len(ks)), rng.choice(("12P", "abc", "", "-5")))
        for san in (False, True):
            o = observe(lambda: extract_categorized_keys_from_tree(list(ks), sanitize=san), grec)
            lcases.append(f"({glist(ks, gtext)}, {gbool(san)}, {o[2][1:-1]})")
            lmeta.append({"keys": ks, "sanitize": san, "observed": str(o[1])})
    n, bad, err = runner.run_case_files("C18_L", IMPORTS, "extract_list_case", "extract_list_check", lcases)
    corr["extract_list"] = {"cases": n, "mismatches": len(bad)}
    ctx.add_eval(n)
    if err:
        ctx.broke("correspondence (extract of a key list) could not be evaluated in Coq", err)
    for i in bad[:10]:
        ctx.broke("correspondence mismatch (extract_categorized_keys_from_tree on a key list)", json.dumps(lmeta[i], ensure_ascii=False))

    # ---------- union: extract(a op b) == extract(a) + extract(b)   (oracle) and __add__ (correspondence)
    acases, ameta = [], []
    n_union = 0
    for i in range(150 if ctx.quick else 1500):
        if len(exprs_valid) < 2:
            break
        a, b = rng.choice(exprs_valid), rng.choice(exprs_valid)
        op = rng.choice((" U ", " O ", " X ", " ∧ ", " ∨ ", " ⊻ ", " ", ""))
        s = f"({a}){op}({b})"
        ra = extract_categorized_keys_from_tree(parse_condition_expression_to_tree(a), sanitize=True)
        rb = extract_categorized_keys_from_tree(parse_condition_expression_to_tree(b), sanitize=True)
        before = (str(ra), str(rb))
        o_whole = observe(lambda: extract_categorized_keys_from_tree(parse_condition_expression_to_tree(s), sanitize=True), grec)
        o_sum = observe(lambda: ra + rb, grec)
        inp = {"kind": "union", "a": a, "b": b, "op": op}
        n_union += 1
        if o_whole[0] != "ok" or o_sum[0] != "ok" or o_whole[1] != o_sum[1]:
            ctx.fail(f"union|{s}", inp, f"extract(a op b) == extract(a) + extract(b) = {o_sum[1]}", f"extract(a op b) = {o_whole[1]}", "oracle: the extract of a composed expression is the union of the extracts of its parts")
        if (str(ra), str(rb)) != before:
            ctx.fail(f"union|mutates|{s}", inp, "summands left untouched", f"{ra} / {rb}", "oracle: __add__ does not change its operands")
        acases.append(f"({grec(ra)}, {grec(rb)}, {o_sum[2][1:-1]})")
        ameta.append({"a": str(ra), "b": str(rb), "observed": str(o_sum[1])})
    # __add__ on records that are not sanitized / not range-checked (any numerals; a non-numeral makes sort(key=int) raise)
    for i in range(60 if ctx.quick else 500):
        pool = [str(x) for x in rng.sample(range(0, 3000), 12)]
        def some(p, kmax=5):
            return [rng.choice(p) for _ in range(rng.randint(0, kmax))]
        pk, tk = ["1P", "12P", "2P", "100P", "9P"], ["UB1", "UB2", "UB3"]
        ra = mk_extract(some(pool), some(pool), some(pool), some(pk, 3), some(tk, 3))
        rb = mk_extract(some(pool), some(pool), some(pool), some(pk, 3), some(tk, 3))
        if i % 15 == 0:
            rb.hint_keys.append("abc")
        o_sum = observe(lambda: ra + rb, grec)
        acases.append(f"({grec(ra)}, {grec(rb)}, {o_sum[2][1:-1]})")
        ameta.append({"a": str(ra), "b": str(rb), "observed": str(o_sum[1])})
    n, bad, err = runner.run_case_files("C18_A", IMPORTS, "add_case", "add_check", acases)
    corr["add"] = {"cases": n, "mismatches": len(bad)}
    ctx.add_eval(n)
    if err:
        ctx.broke("correspondence (__add__) could not be evaluated in Coq", err)
    for i in bad[:10]:
        ctx.broke("correspondence mismatch (CategorizedKeyExtract.__add__)", json.dumps(ameta[i], ensure_ascii=False))

    # ---------- with resolution of packages / time conditions
    evalimpl.set_cer(packages=PACKAGES)
    rcases, rmeta = [], []
    n_res = 0
    for i in range(120 if ctx.quick else 1200):
        s = rand_expression(rng, rng.choice((1, 2, 3, 4, 6)), invalid=0.0, pkgs=PACKAGES)
        plain = parse_condition_expression_to_tree(s)
        toks = tree_tokens(plain)
        for rp, rt in ((True, True), (True, False), (False, True)):
            inp = {"kind": "resolve", "expression": s, "resolve_packages": rp, "replace_time_conditions": rt, "packages": PACKAGES}
            o = observe(lambda: asyncio.run(extract_categorized_keys(s, resolve_packages=rp, replace_time_conditions=rt)), grec)
            # the statement, read on the strings: keys of the expression + keys of the inserted texts, abbreviations gone
            keys = [v for t, v in toks if t == "CONDITION_KEY"]
            pk = [v for t, v in toks if t == "PACKAGE_KEY"]
            tk = [v for t, v in toks if t == "TIME_CONDITION_KEY"]
            pk_left, tk_all = ([] if rp else list(pk)), list(tk)
            if rp:
                for p in pk:   # exactly one level: packages inside a package text stay, its time conditions join those of the expression
                    inner = tree_tokens(parse_condition_expression_to_tree(PACKAGES[p]))
                    keys += [v for t, v in inner if t == "CONDITION_KEY"]
                    pk_left += [v for t, v in inner if t == "PACKAGE_KEY"]
                    tk_all += [v for t, v in inner if t == "TIME_CONDITION_KEY"]
            if rt:
                for t_ in tk_all:
                    keys += TIME_KEYS[t_]
            want = mk_extract(*[sorted({k for k in keys if doc_category(int(k)) == c}, key=int) for c in ("hint", "fc", "rc")],
                              sorted(set(pk_left)), [] if rt else sorted(set(tk_all)))
            n_res += 1
            if o[0] != "ok" or o[1] != want:
                ctx.fail(f"resolve|{rp}|{rt}|{s}", inp, str(want), str(o[1]), "oracle: after resolution the inserted keys appear and the resolved abbreviations do not")
            # correspondence on the resolved tree
            try:
                rtree = asyncio.run(parse_expression_including_unresolved_subexpressions(s, resolve_packages=rp, replace_time_conditions=rt))
                gt = strings.lark_to_gallina(rtree)
            except BaseException as e:  # pylint: disable=broad-except
                ctx.broke("a resolved tree could not be obtained / printed", f"{s!r}: {type(e).__name__}: {e}")
                continue
            for san in (False, True):
                o2 = observe(lambda: extract_categorized_keys_from_tree(rtree, sanitize=san), grec)
                rcases.append(f"({gt}, {gbool(san)}, {o2[2][1:-1]})")
                rmeta.append({**inp, "sanitize": san, "observed": str(o2[1])})
            if pk or tk:
                nontrivial += 1
    n, bad, err = runner.run_case_files("C18_R", IMPORTS, "extract_case", "extract_check", rcases, shard=300)
    corr["extract_resolved_tree"] = {"cases": n, "mismatches": len(bad)}
    ctx.add_eval(n)
    if err:
        ctx.broke("correspondence (extract after resolution) could not be evaluated in Coq", err)
    for i in bad[:10]:
        ctx.broke("correspondence mismatch (extract after resolution)", json.dumps(rmeta[i], ensure_ascii=False))

    # ---------- generate_possible_content_evaluation_results: all m <= M requirement keys, n <= N format keys
    M, N = (3, 4) if ctx.quick else (4, 5)
    rc_pool, fc_pool = ["1", "2", "499", "2000"], ["901", "902", "950", "998", "999"]
    gcases, gmeta = [], []
    n_results = 0

    def gen_case(r, oracle=True):
        nonlocal n_results
        o = observe(r.generate_possible_content_evaluation_results, lambda v: glist(v, gres))
        inp = {"kind": "generate", "hint_keys": r.hint_keys, "format_constraint_keys": r.format_constraint_keys, "requirement_constraint_keys": r.requirement_constraint_keys}
        if o[0] != "ok":
            ctx.fail(f"generate|raises|{r.format_constraint_keys}|{r.requirement_constraint_keys}", inp, "a list of results", str(o[1]), "oracle: generation must not raise")
            return
        gcases.append(f"({grec(r)}, {o[2][4:-1]})")
        gmeta.append({**inp, "n_results": len(o[1])})
        n_results += len(o[1])
        if oracle:
            oracle_generate(ctx, r.hint_keys, r.format_constraint_keys, r.requirement_constraint_keys, o[1])

    for m in range(M + 1):
        for n_ in range(N + 1):
            gen_case(mk_extract(["501", "600"][: (m + n_) % 3], fc_pool[:n_], rc_pool[:m], ["12P"] if m == 1 else [], ["UB1"] if n_ == 1 else []))
            if m + n_ >= 1:
                nontrivial += 1
    # keys that occur as literals in ahbicht's source (a rule singling out particular keys would show here): pairs and triples of them
    mined = strings.mined_keys()
    mined_rc = [k for k in mined if doc_category(int(k)) == "rc"]
    mined_fc = [k for k in mined if doc_category(int(k)) == "fc"]
    ctx.notes["mined_keys"] = {"requirement": mined_rc[:40], "format": mined_fc[:40]}
    for i in range(0, max(0, len(mined_rc) - 1)):
        gen_case(mk_extract([], mined_fc[: (i % 3)], mined_rc[i:i + 2]))
    for i in range(0, max(0, len(mined_rc) - 2), 2):
        gen_case(mk_extract([], mined_fc[-1:], mined_rc[i:i + 3]))
    for i in range(0, max(0, len(mined_fc) - 1)):
        gen_case(mk_extract([], mined_fc[i:i + 2], mined_rc[: (i % 2) + 1]))
    # extracts of random expressions (sanitized: the keys are duplicate free)
    for s in rng.sample(exprs_valid, min(len(exprs_valid), 40 if ctx.quick else 300)):
        r = extract_categorized_keys_from_tree(parse_condition_expression_to_tree(s), sanitize=True)
        if len(r.requirement_constraint_keys) <= M and len(r.format_constraint_keys) <= N:
            gen_case(r)
    # literal behaviour outside the statement's domain (unsanitized lists: repeated keys, other orders); model = code, no oracle
    for fcs, rcs in ((["902", "901"], ["2", "1"]), (["901", "901"], ["1"]), (["901"], ["1", "1"]), (["901", "902", "901"], []), ([], ["3", "1", "2"]), (["999"], ["2499", "1"])):
        gen_case(mk_extract(["501", "501"], fcs, rcs), oracle=False)
    n, bad, err = runner.run_case_files("C18_G", IMPORTS, "gen_case", "gen_check", gcases, shard=8)
    corr["generate"] = {"cases": n, "mismatches": len(bad), "results_compared": n_results, "max_requirement_keys": M, "max_format_keys": N}
    ctx.add_eval(n)
    if err:
        ctx.broke("correspondence (generate) could not be evaluated in Coq", err)
    for i in bad[:10]:
        ctx.broke("correspondence mismatch (generate_possible_content_evaluation_results, ordered lists)", json.dumps(gmeta[i], ensure_ascii=False))

    ctx.notes["correspondence"] = corr
    ctx.notes["oracle"] = {"keys_checked_against_documented_ranges": n_range, "expressions_once_ascending": len(exprs_valid), "unions": n_union,
                           "resolutions": n_res, "generate_extracts": len(gcases)}
    ctx.notes["input_distribution"] = {"tokens_per_expression": dict(sorted(sizes.items()))}
    ctx.coverage["distinct_nontrivial"] = nontrivial
    ctx.coverage["exhaustive"] = False
    ctx.notes["exhaustive_scope"] = f"generate: every (m, n) with m <= {M} requirement keys and n <= {N} format keys; ranges: every key 0..3000"
    ctx.coverage["rule"] = ("tie T: Gen_ranges on 3001 + zero-padded/large + malformed keys; tie C: extraction on random well-formed expressions (1-12 atoms, keys on and "
                            "around the documented boundaries, packages, time conditions, 4% out-of-range keys, zero-padded keys), with sanitize on/off, on key lists, on trees "
                            "after package / time-condition resolution, __add__, and the generated results as ordered lists; non-trivial = expressions with >= 2 distinct "
                            "condition keys, resolution cases that contain a package or time condition, and (m, n) pairs with m + n >= 1")
    if emeta:
        ctx.sample(emeta[min(7, len(emeta) - 1)])
    if rmeta:
        ctx.sample({k: v for k, v in rmeta[0].items() if k != "packages"})
    if gmeta:
        ctx.sample(gmeta[min(7, len(gmeta) - 1)])
    ctx.trusted += [
        "modelled, tied by this correspondence: lark Tree.scan_values order; [*set(l)] + list.sort(key=int)/sort() as 'duplicate free, stably sorted'; "
        "itertools.product / combinations order; dict comprehension insertion order; iteration order of the Enum ConditionFulfilledValue",
    ]
    return finish(ctx, assumptions=[
        "interpretation I-C18: theorems on sanitized lists assume distinct keys have distinct integer values (key_inj; canonical numerals satisfy it, C18_canonical_numerals); "
        "zero-padded duplicates such as [01] next to [1] are excluded from the sanitized comparisons",
        "interpretation I-C18b: without any format and requirement key the library returns [] (its own unit test '0 FC, 0 RC'), stated as C18_generate_no_keys; "
        "the product theorems are for m + n >= 1",
        "int() is modelled on ASCII digit strings (what Lark's CONDITION_KEY produces); other spellings accepted by Python's int() are outside the model",
        "C18_resolution of the design is covered by the quantification over ALL trees (a resolved tree is a tree) plus the oracle / correspondence on resolved trees; "
        "the resolver itself is the subject of C10",
    ])


# ---------------------------------------------------------------- replay
def replay(path):
    from vlib import evalimpl, impl  # noqa: F401
    from ahbicht.expressions.condition_expression_parser import (
        extract_categorized_keys,
        extract_categorized_keys_from_tree,
        parse_condition_expression_to_tree,
    )

    with open(path, encoding="utf-8") as f:
        r = json.load(f)
    inp = r["input"]
    kind = inp.get("kind")
    show = lambda fn: observe(fn, str)[1]
    print("replay", inp)
    print("expected:", r["expected"])
    print("recorded:", r["observed"])
    if kind == "key":
        print("now (key list):", show(lambda: extract_categorized_keys_from_tree([inp["key"]], sanitize=True)))
        print("now (tree)    :", show(lambda: extract_categorized_keys_from_tree(parse_condition_expression_to_tree(f"[{inp['key']}]"), sanitize=True)))
    elif kind == "expr":
        print("now:", show(lambda: extract_categorized_keys_from_tree(parse_condition_expression_to_tree(inp["expression"]), sanitize=True)))
    elif kind == "union":
        ex = lambda s: extract_categorized_keys_from_tree(parse_condition_expression_to_tree(s), sanitize=True)
        print("now extract(a op b)      :", show(lambda: ex(f"({inp['a']}){inp['op']}({inp['b']})")))
        print("now extract(a)+extract(b):", show(lambda: ex(inp["a"]) + ex(inp["b"])))
    elif kind == "resolve":
        evalimpl.set_cer(packages=inp["packages"])
        print("now:", show(lambda: asyncio.run(extract_categorized_keys(inp["expression"], resolve_packages=inp["resolve_packages"], replace_time_conditions=inp["replace_time_conditions"]))))
    elif kind == "generate":
        ke = mk_extract(inp["hint_keys"], inp["format_constraint_keys"], inp["requirement_constraint_keys"])
        res = ke.generate_possible_content_evaluation_results()
        got = canon_results(res)
        m, n = len(ke.requirement_constraint_keys), len(ke.format_constraint_keys)
        want = {(tuple(sorted(f)), tuple(sorted(q))) for f, q in expected_product(ke.format_constraint_keys, ke.requirement_constraint_keys)}
        print(f"now: {len(got)} results, {len(set(got))} distinct, expected {3 ** m * 2 ** n if m + n else 0}; set equal to the product: {set(got) == want if m + n else got == []}")
    else:
        print("unknown replay kind")
        return 1
    return 0
