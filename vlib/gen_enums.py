"""Gen_enums: the three token callbacks of AhbExpressionTransformer and _str_to_modal_mark_mapping (tie T)."""
import ast
import os

from vlib.py2coq import Untranslatable, enum_members
from vlib.translate import HEADER, SRC, find_class, find_func, gtext, parse


def _callback_shape(fn):
    """classify `return <expr>`: ('enum', Class, upper?) | ('map', name, upper?) | ('value',)"""
    body = [s for s in fn.body if not (isinstance(s, ast.Expr) and isinstance(s.value, ast.Constant))]
    if len(body) != 1 or not isinstance(body[0], ast.Return):
        raise Untranslatable(f"{fn.name}: body is not a single return")
    arg = fn.args.args[1].arg
    e = body[0].value

    def val(x):
        # <arg>.value  or  <arg>.value.upper()
        if isinstance(x, ast.Attribute) and x.attr == "value" and isinstance(x.value, ast.Name) and x.value.id == arg:
            return False
        if (isinstance(x, ast.Call) and not x.args and isinstance(x.func, ast.Attribute) and x.func.attr == "upper"
                and isinstance(x.func.value, ast.Attribute) and x.func.value.attr == "value"
                and isinstance(x.func.value.value, ast.Name) and x.func.value.value.id == arg):
            return True
        raise Untranslatable(f"{fn.name}: unrecognised token access {ast.dump(x)}")

    if isinstance(e, ast.Call) and isinstance(e.func, ast.Name) and len(e.args) == 1 and not e.keywords:
        return ("enum", e.func.id, val(e.args[0]))
    if isinstance(e, ast.Subscript) and isinstance(e.value, ast.Name):
        return ("map", e.value.id, val(e.slice))
    return ("value", val(e))


def generate():
    mod, path = parse("expressions/ahb_expression_evaluation.py")
    emod, _ = parse("models/enums.py")
    mm = dict(enum_members(find_class(emod, "ModalMark")))
    po = dict(enum_members(find_class(emod, "PrefixOperator")))
    cls = find_class(mod, "AhbExpressionTransformer")
    mapping = None
    for st in mod.body:
        tgt = None
        if isinstance(st, ast.AnnAssign) and isinstance(st.target, ast.Name):
            tgt, value = st.target.id, st.value
        elif isinstance(st, ast.Assign) and len(st.targets) == 1 and isinstance(st.targets[0], ast.Name):
            tgt, value = st.targets[0].id, st.value
        if tgt == "_str_to_modal_mark_mapping":
            if not isinstance(value, ast.Dict):
                # not a literal (e.g. built from the enum): take the dict object of the loaded module -- data, like the loaded grammar
                from vlib import impl  # noqa: F401
                import ahbicht.content_evaluation  # noqa: F401  (import order: avoids the circular import of the expressions package)
                from ahbicht.expressions import ahb_expression_evaluation as loaded
                from ahbicht.models.enums import ModalMark

                obj = getattr(loaded, "_str_to_modal_mark_mapping", None)
                if not isinstance(obj, dict) or not all(isinstance(k, str) and isinstance(v, ModalMark) and v.name in mm for k, v in obj.items()):
                    raise Untranslatable("_str_to_modal_mark_mapping is neither a dict literal nor a loaded dict of str -> ModalMark")
                mapping = [(k, v.name) for k, v in obj.items()]
                continue
            mapping = []
            for k, v in zip(value.keys, value.values):
                if not (isinstance(k, ast.Constant) and isinstance(k.value, str) and isinstance(v, ast.Attribute)
                        and isinstance(v.value, ast.Name) and v.value.id == "ModalMark" and v.attr in mm):
                    raise Untranslatable("unexpected entry in _str_to_modal_mark_mapping")
                mapping.append((k.value, v.attr))
    if mapping is None:
        raise Untranslatable("_str_to_modal_mark_mapping not found")
    shapes = {n: _callback_shape(find_func(cls, n)) for n in ("MODAL_MARK", "PREFIX_OPERATOR", "CONDITION_EXPRESSION")}
    out = [HEADER.format(src=path), "From Ahb Require Import Gen.Gen_valmaps.\n"]
    # str.upper() on the code points the indicator regexes can match (computed with Python's own str.upper)
    cands = sorted({cp for cp in range(0x110000) if not (0xD800 <= cp <= 0xDFFF) and chr(cp).lower() in "mussolkanxu" and len(chr(cp).lower()) == 1}
                   | {0x17F, 0x212A})
    table = []
    for cp in cands:
        up = chr(cp).upper()
        table.append(f"({cp}, {gtext(up)})")
    out.append("Definition upper_table : list (N * text) := [" + "; ".join(table) + "]%N.")
    out.append("Definition upper_char (c : N) : text := match find (fun p => N.eqb (fst p) c) upper_table with Some p => snd p | None => [c] end.")
    out.append("Definition upper (t : text) : text := flat_map upper_char t.")

    def lookup_fn(name, entries, exn):
        lines = [f"Definition {name} (v : text) : result indicator :="]
        for key, ctor in entries:
            lines.append(f"  if text_eqb v {gtext(key)} then Ok {ctor} else")
        lines.append(f"  Exn {exn}.")
        return "\n".join(lines)

    # MODAL_MARK
    sh = shapes["MODAL_MARK"]
    if sh[0] == "map" and sh[1] == "_str_to_modal_mark_mapping":
        out.append(lookup_fn("modal_mark_lookup", [(k, "I_" + v) for k, v in mapping], "KeyErr"))
    elif sh[0] == "enum" and sh[1] == "ModalMark":
        out.append(lookup_fn("modal_mark_lookup", [(v, "I_" + k) for k, v in mm.items()], "ValueErr"))
    else:
        raise Untranslatable(f"MODAL_MARK callback: {sh}")
    out.append(f"Definition modal_mark_of_token (v : text) : result indicator := modal_mark_lookup ({'upper v' if sh[2] else 'v'}).")
    sh = shapes["PREFIX_OPERATOR"]
    if sh[0] != "enum" or sh[1] != "PrefixOperator":
        raise Untranslatable(f"PREFIX_OPERATOR callback: {sh}")
    out.append(lookup_fn("prefix_operator_lookup", [(v, "I_P" + k) for k, v in po.items()], "ValueErr"))
    out.append(f"Definition prefix_operator_of_token (v : text) : result indicator := prefix_operator_lookup ({'upper v' if sh[2] else 'v'}).")
    sh = shapes["CONDITION_EXPRESSION"]
    if sh != ("value", False):
        raise Untranslatable(f"CONDITION_EXPRESSION callback: {sh}")
    out.append("Definition condition_expression_passthrough : bool := true.")
    return "\n".join(out) + "\n"
