"""Writes MANIFEST.json from the table below (python3 -m vlib.manifest)."""
import json
import os

ROOT = os.path.dirname(os.path.dirname(os.path.abspath(__file__)))

# id -> (technique, level text, level note, design ref)
CLAIMED = {
    "C03": (
        "Coq proof by exhaustive case analysis over operators regenerated from source (translator) + exhaustive translator validation",
        "All laws of the statement are Coq theorems (Props/C03.v) about cfv_and/or/xor and the README rows, which are regenerated from "
        "/repo/src/ahbicht/models/condition_nodes.py and /repo/README.rst on every run; the domain is finite, so case analysis is a complete proof. "
        "The translator is validated on all 48 operator/pair combinations against the Python enum on every run.",
        "Trusted: Coq kernel (vm_compute), vlib/py2coq.py + translate.py (validated exhaustively on this domain), README table parser.",
        "DESIGN.md section 5 C03",
    ),
    "C04": (
        "Coq proof by structural induction over expressions about a hand-written executable model of the Transformer + correspondence (vm_compute) with ahbicht",
        "Theorems C04_state/C04_outcome (Props/C04.v): for every in-domain, structurally valid expression and every assignment the model's evaluation returns the "
        "recursive four-valued semantics and the documented outcome mapping; no bound on size. The model (coq/Model/EvalRC.v) uses the operators and key ranges "
        "regenerated from /repo and is tied to ahbicht by the correspondence: every tree with <= 3 leaves x all assignments (exhaustive) plus random trees, "
        "comparing node kind, state, hint text and the collected expression string. Since the fourth build round the four transformer callbacks, the hint builder and "
        "requirement_constraint_evaluation on all trees with <= 2 leaves are additionally EXECUTED by the translator on finite universes and the rows proved equal to the model "
        "(C04_transformer_callbacks_are_the_regenerated_table: 3600 rows, C04_hint_builder_is_the_regenerated_table, C04_requirement_constraint_evaluation_is_the_regenerated_table), and the "
        "node builder is proved to refine the sequential model under every schedule (C04_node_builder_under_every_schedule).",
        "Trusted: Coq kernel, translator (Gen_logic, Gen_ranges; the execution-based Gen_rccb / Gen_fcmsg / Gen_rctail), the hand-written model of Lark's Transformer order / VisitError "
        "unwrapping beyond the regenerated scope (validated by the correspondence sample), dict-based evaluators.",
        "DESIGN.md section 5 C04",
    ),
    "C05": (
        "Coq proof (one-hole contexts, congruence lemma, monotonicity in the information order) over the evaluation model + metamorphic oracle on ahbicht",
        "Theorems C05_hint_and_operand / C05_attach_fc / C05_swap_operands / C05_definite_is_stable (Props/C05.v) hold for every context, expression and assignment; "
        "redundant brackets leave no trace in the tree (C01). Beyond that (Proofs/C05_runs.v): the compositional semantics factors through the flattening, so the grouping inside a run of one operator -- "
        "which C01 leaves open -- and C01's redundant brackets leave the outcome unchanged whenever both trees are valid (C05_outcome_independent_of_run_grouping, C05_any_resolution_same_outcome, "
        "C05_redundant_brackets_partial); C05_regrouping_validity says exactly when regrouping changes validity (a single hint directly paired with a single format constraint under O/X; witness "
        "C05_run_grouping_can_change_validity, interpretation I-C05). The relations are executed on ahbicht at every applicable position of sampled expressions, incl. every rotation inside runs.",
        "Trusted: as C04; the bracket clause rests on the parser model of C01 and on reading 'redundant brackets' as brackets that keep the tree (I-C05, DESIGN.md section 7).",
        "DESIGN.md section 5 C05",
    ),
    "C06": (
        "Coq proof by structural induction (same invariant as C04) over the evaluation model + correspondence + all-assignments oracle",
        "Theorems C06_invalid_always / C06_valid_never (Props/C06.v): a structural predicate `valid` decides, for every assignment at once, whether evaluation raises the "
        "invalid-expression error; C06_ahb lifts this to AHB expressions (every generated content evaluation result) and C06_validity_check proves that the model of is_valid_expression's "
        "try-every-result loop answers true iff every condition part is valid; C06_validity_loop_under_every_schedule / C06_validity_check_under_every_schedule lift the loop to a task tree "
        "(one gathered coroutine per generated result, each storing its result in a context variable before it evaluates): every schedule returns the structural verdict and every evaluation sees its own result. Proofs/C06_runs.v relates validity to the grouping C01 leaves open: a valid tree has a valid flattening, a valid corner-free flattening makes every tree with that flattening valid (C06_validity_independent_of_run_grouping); the one corner where the grouping decides is characterised exactly (C05_regrouping_validity, I-C05). Correspondence and oracle: all trees <= 3 leaves x all assignments; is_valid_expression vs the structural criterion and vs Model/Validity.v.",
        "Trusted: as C04; Model/Validity.v as a model of is_valid_expression (validated by the validity-check oracle on every run).",
        "DESIGN.md section 5 C06",
    ),
    "C01": (
        "Coq proof (induction over derivations; stratified grammar vs ambiguity resolution by rule order) over a rule table regenerated from the loaded Lark grammar + exhaustive small-scope correspondence with Lark",
        "Props/C01.v: every tree admitted by the modelled resolution (Rc: lowest rule order per span) is a derivation of the documented stratified precedence (Sc); such derivations are unique "
        "modulo same-operator runs; every well-formed forest has one; the executable model parser computes it; redundant brackets and operator spelling do not change it; "
        "at character level (C01_written_form_irrelevant, C01_brackets_read_back) any writing of a token list -- either spelling and case of an operator, any white space between tokens and inside square brackets -- lexes back to it and bracket grouping inverts printing. "
        "Unbounded in length and nesting. Lark itself is tied by correspondence: all token sequences up to length 5/6 plus random expressions, tree compared modulo runs.",
        "Trusted: Coq kernel; translator for the rule table (Gen_grammar); Rc as a model of Lark's Earley+resolve and Model/Lex.v as a model of its dynamic lexer (validated by correspondence, not verified). "
        "White-space and spelling insensitivity is a theorem about the lexer model (Proofs/C01_lexprint.v) over character classes regenerated from the loaded terminals.",
        "DESIGN.md section 5 C01",
    ),
    "C02": (
        "Coq proof that the model parsers return a tree or SyntaxError and accept exactly the forests derivable by the docstring grammar (= local well-formedness) + correspondence with Lark on three input streams for all entry points",
        "Props/C02.v: parse_cond s is Ok or Exn SyntaxErr for every string and accepts iff lexing and bracket matching succeed and the forest is locally well-formed, which is equivalent to derivability in the "
        "ambiguous grammar of the docstring; at character level (C02_lexer_language, C02_accepted_language) the lexer accepts exactly the writings of printed token lists and the accepted strings are exactly the writings of bracketed token sequences of grammar-derivable forests; the AHB scanner and the resolver (try AHB, then condition expression) return a tree or SyntaxError for every string; an AHB expression with a malformed condition part is rejected. "
        "Correspondence: condition parser, AHB parser and resolver vs the models on well-formed, nearly well-formed and garbage strings; the validity check by oracle.",
        "Trusted: as C01; Model/Ahb.v models Lark's dynamic lexer on the three AHB terminal regexes (character data computed by the translator with Python's re); resource limits (recursion depth, memory) are outside the model; "
        "is_valid_expression's (False, message) report is checked by the oracle only.",
        "DESIGN.md section 5 C02",
    ),
    "C08": (
        "Coq proof by structural induction over the model of FormatConstraintTransformer and its error-message builder + correspondence on all small expressions x assignments x message modes",
        "Props/C08.v: the fulfilled flag equals the Boolean value of the tree for every expression and assignment; absent/empty counts as fulfilled; under the proviso the result carries a message iff unfulfilled "
        "(invariant preserved by the three builders); the base evaluator's default message; C08_format_constraint_evaluation discharges the environment hypotheses for the dict-based evaluator model, i.e. it is a statement about format_constraint_evaluation itself. Grouping by precedence is C01. The message builder is additionally executed by the translator on symbolic messages and the rows proved equal to fc_compose for all texts (C08_message_builder_is_the_regenerated_table); format_constraint_evaluation is proved to refine the sequential model under every schedule.",
        "Trusted: Coq kernel; the hand-written model of the transformer/f-string builders (validated by correspondence: messages compared as text).",
        "DESIGN.md section 5 C08",
    ),
    "C09": (
        "Coq theorems: print/scan round trip for the AHB scanner model, indicator normalisation over callbacks regenerated from source, selection of the first fulfilled part + correspondence (scanner vs Lark, evaluation vs ahbicht) and split/selection oracle",
        "Props/C09.v: C09_split (any number of modal-mark parts in any ASCII case spelling, condition texts over the CONDITION_EXPRESSION alphabet, optional trailing bare mark, scan into exactly these parts in order), "
        "C09_split_prefix_operator, C09_split_bare, C09_split_sound (conversely, whatever the scanner accepts is the concatenation of the parts it returns, in written order); C09_normalise (every case variant of the six indicators maps to its canonical indicator: the obligation the original lower-case prefix-operator defect breaks); "
        "C09_select / C09_selected_part_is_reported / C09_bare_indicator. Lark's behaviour on the AHB grammar is tied to the scanner model by correspondence on every run. The selection loop is additionally executed by the translator on all lists of 1-4 parts and compared with `select` (C09_selection_loop_is_the_regenerated_table, bounded domain).",
        "Trusted: Coq kernel, translators (Gen_enums, Gen_ahbgrammar incl. character data computed with Python's re), hand models of the scanner and of AhbExpressionTransformer (validated by correspondence).",
        "DESIGN.md section 5 C09",
    ),
    "C13": (
        "Coq proof (nested induction over AHB trees) about a hand model of the validation recursion using mapping tables regenerated from source, lifted to every schedule of the gathers by a refinement theorem (task trees -> sequential model) + correspondence on random AHB trees",
        "Props/C13.v: a successful run is a document-order traversal reporting each node once and nothing below a forbidden node (Visit); each segment-level status is its own status "
        "(documented mapping) combined with the parent's; table facts (below optional nothing required, below required own status kept, FILLED/EMPTY suffix, UNKNOWN under MUSS/prefix aborts, "
        "the mapping never hits an unbound local) over map_rvv/combine_rvv regenerated from validation.py. For every tree, every evaluation of node expressions, both flags. "
        "C13_every_schedule_yields_the_sequential_report: the validation recursion written as task trees (Model/ValidateAsync.v: every asyncio.gather a Par, parsing/evaluating a node's expression arbitrary suspending programs) returns under EVERY "
        "schedule the report of the sequential model, so the statements above (and C14/C16/C17) hold for all interleavings; every schedule terminates. The status step (get_segment_level_requirement_validation_value, validate_data_element_freetext) is additionally executed by the translator for every indicator x outcome x parent status x flag x input and the 960 rows proved equal to the model (C13_status_step_is_the_regenerated_table).",
        "Trusted: Coq kernel, translator (Gen_valmaps, validated on the whole finite domain every run), hand model of validate_* (validated by correspondence; oracle: documented mapping on every indicator spelling x outcome x flag, positional reading of "
        "the report incl. repeated discriminators). The task-tree model of asyncio.gather / contextvars is that of C12 (modelled, tied by the C12/C15 correspondences); when several tasks raise, the leftmost exception is taken (I-C12).",
        "DESIGN.md section 5 C13",
    ),
    "C14": (
        "Coq proof by a generic simulation theorem over the validation model + discharge of its hypothesis for the concrete AHB-evaluation model + correspondence and the equation as oracle",
        "Props/C14.v: validate(t, flag) = validate(rewrite SOLL->Muss/Kann t, any flag) for every AHB tree (groups, segments, free-text elements, pool entries at any depth), for every "
        "evaluation that changes nothing but the indicator under rewriting (C14_generic) and concretely for the token-level rewriting on the AHB evaluation model (C14_true/C14_false).",
        "Trusted: as C13. The hypothesis that the invalid-expression reason text does not mention the indicator is stated explicitly.",
        "DESIGN.md section 5 C14",
    ),
    "C16": (
        "Coq proof by the same simulation theorem (relation: equal rows except at the replaced nodes) + correspondence + 'replace by Kann' oracle",
        "Props/C16.v: replacing the invalid expression of any subset of nodes by 'Kann' leaves every other reported row identical, keeps positions and exceptions, and the node itself is IS_OPTIONAL with the reason as hint; "
        "invalid pool entries count as selectable (C16_pool_entry_selectable: such an entry is among the offered values of its pool).",
        "Trusted: as C13.",
        "DESIGN.md section 5 C16",
    ),
    "C17": (
        "Coq proof about the value-pool function of the validation model + correspondence on random pools x inputs x parent statuses",
        "Props/C17.v: for a non-forbidden segment and pairwise different qualifiers the offered values are exactly the admissible entries in pool order (single-entry pools offer their entry); the judgement of the "
        "input by the offered values (accepted / flagged and empty with hint / empty); nothing offered or forbidden segment -> forbidden. validate_data_element_valuepool is additionally executed by the translator on every pool of 0-3 entries x inputs x segment statuses and the 1071 rows (status, flag, hint text, offered values) proved equal to the model (C17_value_pool_validation_is_the_regenerated_table). C17_judgement_ignores_the_meanings: two pools with the same qualifiers and expressions entry by entry, whatever their descriptions (an empty one included), offer the same qualifiers in the same order and judge every input alike (status, flag, hint; errors alike).",
        "Trusted: as C13; dict semantics of possible_values modelled as an insertion-ordered association list.",
        "DESIGN.md section 5 C17",
    ),
    "C07": (
        "Coq proof: invariant of the token-level expression builder by induction over expressions, refinement of the string-level builder (f-strings, strip, regex substitution) to it, linked to the parser theorems of C01 + correspondence (builder calls, string vs render, end-to-end part evaluation) and truth-table oracle",
        "Props/C07.v: for every in-domain valid expression and assignment the reported expression is absent iff the direct reading is empty, otherwise it is a builder-made token expression denoting a tree with the "
        "same Boolean value under every truth assignment and the same keys as the reading (C07_meaning); only FC keys of the source occur; the built forest has a derivation in the documented precedence grammar "
        "(C07_wellformed) and every tree the parser's resolution admits for it has the value of the reading (C07_value_via_parser); C07_text: the reported STRING is accepted by the parser model and parses, modulo runs, to the tree denoting the reading. "
        "C07_string_builder_connect / C07_reported_string_is_rendering: the STRING-level model of FormatConstraintExpressionBuilder (Model/FcString.v: the f-strings of __init__/_connect, str.strip, re.sub of the single-key bracket pattern "
        "with \\d = the regenerated Unicode Nd table) computes the rendering of the token-level builder, for every expression whose keys are digit strings (all the lexer produces).",
        "Trusted: as C04 and C01. The string-level builder model is tied to expression_builder.py by its own correspondence on single builder calls (renderings and arbitrary strings, all white-space kinds, digits of other scripts) and on the two "
        "primitives (pattern.sub, str.strip) on every run. Interpretation S1 (DESIGN.md section 7).",
        "DESIGN.md section 5 C07",
    ),
    "C10": (
        "Coq proof over a model of expand_packages/expand_time_conditions on parse trees (incl. the placeholder pass) linked to the C01 parser theorems + exact-tree correspondence and the substitution equation as oracle",
        "Props/C10.v: expansion is the one-level substitution of package leaves by their package trees; the placeholder pass re-inserts every awaited result at the occurrence that produced it (repeated/neighbouring packages); "
        "an unknown package aborts with NotImplementedError; substitution preserves precedence derivations, hence the resolved tree equals modulo runs every parse of the bracketed substituted forest; "
        "C10_textual_time_conditions is the same statement for [UB1]/[UB2]/[UB3] with the replacement texts of the regenerated table; C10_textual_substitution states this at text level, as the property is worded: the parser model applied to the text in which every package is replaced by \"(\" + package text + \")\" returns the flattening of the resolver model's result; "
        "UB1/UB2/UB3 expansions over the table regenerated from TimeConditionTransformer (UB3's tree is the model parser's parse of its text, also in brackets).",
        "Trusted: as C01; Gen_timecond translator. Partial: the step from the substituted TEXT to the substituted forest (lexing of the inserted '(...)') is covered by the oracle's exact tree equality on ahbicht, not by a theorem; "
        "the lazy scan_values generator is abstracted to scan order.",
        "DESIGN.md section 5 C10",
    ),
    "C18": (
        "Coq proof (lia over regenerated range bounds; combinatorics of itertools product/combinations with filters) + translator validation on 0..3000 + ordered-list correspondence",
        "Props/C18.v (17 theorems): the number ranges partition all key numbers; extraction lists every key once, sorted, in exactly one category and is a homomorphism for composition; any parse of a written expression carries exactly the atoms of its tokens in written order; "
        "the literal combinations(product(...))-with-filters definition equals the Cartesian product as ORDERED lists for every m, n (hence Permutation, NoDup, length 2^n*3^m).",
        "Trusted: Coq kernel, translator (Gen_ranges, validated on 3036 keys every run), hand model of extraction/sanitize/generate (validated by correspondence as ordered lists). "
        "Interpretations I-C18 (leading zeros) and I-C18b (no keys -> []), see Props/C18.v.",
        "DESIGN.md section 5 C18",
    ),
    "C12": (
        "Coq proof of schedule independence for a task language with gather, yields and task-local context (invariant: every step preserves the denotation) + correspondence and all-yield-vectors oracle on ahbicht",
        "Props/C12.v (19 theorems): every complete schedule of an arbitrary program yields the no-yield denotation; progress, termination (every step decreases a measure), position-preserving pairing at every gather+zip "
        "site (incl. duplicate keys), isolation of context-local data between gathered tasks, soundness of the executable scheduler. The implementation is run under all yield-count vectors in {0..2}^n (quick) / {0..3}^n (thorough).",
        "Partial by nature: the real event loop is modelled as 'any runnable task may step' (a superset of real schedules); contextvars copy-on-task-creation and asyncio.gather are modelled, not verified; user evaluators are assumed "
        "deterministic functions of (key, task-local context); with several raising awaitables only the exception class is compared.",
        "DESIGN.md section 5 C12",
    ),
    "C15": (
        "Coq corollary of schedule independence + context isolation for the validate_segment skeleton (nested trees) + refutation witness for the 'set in parent' variant + correspondence/oracle with yielding evaluators",
        "Props/C15.v: for every schedule the result at each free-text element equals validating that element alone with its own text (also inside nested groups with arbitrary sibling tasks); the variant that sets the "
        "ContextVar in the parent before gathering is refuted by a computed witness. C15_every_schedule_yields_the_sequential_report / C15_free_text_evaluated_with_own_input: for the whole validation recursion (groups, segments, "
        "value pools, free texts; Model/ValidateAsync.v) every schedule yields the sequential model's rows, and a free-text element's expression is evaluated with the ContextVar holding its own input. "
        "Implementation: 2-5 elements with different inputs (also repeated / missing discriminators, matched by position), FC evaluators yield before reading the ContextVar, all yield vectors.",
        "Partial: as C12.",
        "DESIGN.md section 5 C15",
    ),
    "C20": (
        "Coq proof over a byte-level model of datetime.fromisoformat / astimezone / pytz lookup with the Berlin transition table regenerated from pytz; finite checks lifted by interval lemmas; correspondence + integer EU-rule oracle",
        "Props/C20.v (14 theorems): the generated table equals the EU rule on [1996, 2038) (42 years checked by vm_compute + interval lemma, bound in the statement); civil-date round trip on the stated range; for every in-range instant, "
        "every offset |o| < 24h and every listed shape 932/933 are fulfilled iff local time is 00:00:00, 934/935 iff 06:00:00, 931 iff offset zero (instant and offset symbolic); any aware datetime is judged by its instant only; "
        "every string that does not parse is unfulfilled with a message; no string makes the five evaluators raise (incl. year-1/9999 overflow); a string whose first character is not an ASCII digit is no datetime, so white space in front of a fulfilling datetime makes all five unfulfilled with a message (C20_first_character_must_be_a_digit, C20_leading_white_space_is_no_datetime), and a NUL-free string that ends in an ASCII white space character parses at most as a naive datetime, so it is unfulfilled as well (C20_trailing_white_space_is_no_datetime); in general an aware datetime ends in a digit or in Z (C20_last_character_is_a_digit_or_Z).",
        "Trusted: Coq kernel; gen_tz translator (fails closed on unexpected pytz shapes); hand model of CPython's fromisoformat (fuzzed 2.3M strings during construction, tied every run by correspondence), astimezone range checks and pytz's fromutc (modelled, not verified).",
        "DESIGN.md section 5 C20",
    ),
    "C11": (
        "Coq proof by induction over histories with a separation invariant on a store model of Python aliasing (lru_cache + Tree.copy/deepcopy), copy mode regenerated from source + correspondence on random parse/edit histories",
        "Props/C11.v: for every cache size, every pure parser and every history of parses (hits, misses, evictions, exceptions) and in-place edits (replace/remove/append at any depth, moved subtrees), every parse returns the "
        "fresh tree under deep copy (full statement, no partial); the generated constant says the source copies deeply (C11_source_mode: the obligation the original shallow copy breaks); shallow/no copy refuted by the three-step witness; "
        "evaluation is history independent. Implementation: random histories incl. > 1024 distinct strings (evictions), both parsers.",
        "Trusted: Coq kernel; gen_cache translator (fail-closed classification of tree_copy's return expression and the decorator stacks); the store model of functools.lru_cache, lark Tree.copy/__deepcopy__ and Python aliasing "
        "(modelled, tied by correspondence); pure_parse is a Section variable (Lark is a pure function of the string). Threads racing on the cache and rebinding attributes of Tree objects are outside the model.",
        "DESIGN.md section 5 C11",
    ),
    "C19": (
        "Coq proof of dump/load round trip for a generic interpreter of schema descriptors regenerated from source (ast), compatibility of each schema/class pair by vm_compute, tree schema by nested induction + JSON-level correspondence",
        "Props/C19.v (16 theorems): C19_generic (compatible descriptor + inhabitant => load (dump v) = v) proved once; C19_compatible_<class> for the six classes over the GENERATED descriptors (the obligation a dropped allow_none breaks); "
        "the pre-fix schema refuted; C19_tree for trees with non-empty token values (necessity shown); evaluation after round trip unchanged. Implementation: random instances incl. None outcomes, mutated documents for the error paths, parsed trees.",
        "Trusted: Coq kernel; gen_schemas translator (ast only, fail-closed, cross-checked against _declared_fields every run); the model of marshmallow 3.22 / attrs validators (modelled, tied by correspondence). "
        "tree_ok (token values non-empty) is proved for every parse of a written condition expression from the lexer model (C19_eval_after_roundtrip_of_parsed_trees); for hand-built trees it stays a hypothesis.",
        "DESIGN.md section 5 C19",
    ),
}

PENDING_REASON = "not yet built in this round: the Coq model/theorems for this property are under construction (see DESIGN.md section 11); no check is claimed until it exists"


def main():
    props = [json.loads(l) for l in open(os.path.join(ROOT, "properties.jsonl"), encoding="utf-8")]
    checks, na = [], []
    for p in props:
        cid = p["id"]
        if cid in CLAIMED:
            tech, text, note, ref = CLAIMED[cid]
            checks.append({
                "property_id": cid,
                "quick_cmd": f"./check {cid} --tier quick",
                "thorough_cmd": f"./check {cid} --tier thorough",
                "evidence_file": f"/verif/evidence/{cid}.json",
                "replay_cmd_template": f"./check {cid} --replay {{path}}",
                "engine": "coq-model",
                "level_claimed": {"category": "proof", "text": text, "design_ref": ref},
                "level_note": note,
                "technique": tech,
            })
        else:
            na.append({"property_id": cid, "reason": NA.get(cid, PENDING_REASON)})
    man = {
        "version": 1,
        "setup_cmd": "./check --setup",
        "hooks": {
            "guard": "AHBICHT_VERIF",
            "enable": "none needed: no hook commits exist in /repo; checks import /repo/src directly (PYTHONPATH forced by ./check) and set AHBICHT_VERIF=1 for uniformity",
            "baseline_off_cmd": "cd /repo && /venv/bin/python -m pytest -ra -q -p no:cacheprovider --timeout=900 --continue-on-collection-errors",
            "source_commits": [],
            "add_only": True,
        },
        "engines": [{
            "name": "coq-model",
            "path": "/verif/coq",
            "serves_properties": sorted(CLAIMED),
            "kind_free_text": "Coq 8.16 development: Gen/ regenerated from /repo by vlib/translate.py, hand-written executable models in Model/, lemmas in Proofs/, one Props/Cxx.v per property; correspondence via generated cases.v + vm_compute",
        }],
        "checks": checks,
        "notes": "Entry point ./check <id> --tier quick|thorough; VERIF_SEED seeds every random choice. Known findings: known_findings.txt.",
        "not_applicable": na,
    }
    with open(os.path.join(ROOT, "MANIFEST.json"), "w", encoding="utf-8") as f:
        json.dump(man, f, indent=1, ensure_ascii=False)
        f.write("\n")


NA = {}

if __name__ == "__main__":
    main()
