"""Writes MANIFEST.json from the table below (python3 -m vlib.manifest)."""
import json
import os

ROOT = os.path.dirname(os.path.dirname(os.path.abspath(__file__)))

# id -> (technique, level text, level note, design ref)
CLAIMED = {
    "C03": (
        "Coq proof by exhaustive case analysis over operators regenerated from source (translator) + exhaustive translator validation",
        "All laws of the statement are Coq theorems (Props/C03.v) about cfv_and/or/xor and the README rows, which are regenerated from "
        "/repo/src/ahbicht/models/condition_nodes.py and /repo/README.rst on every run; the domain is finite, so case analysis is a complete proof. "
        "The translator is validated on all 48 operator/pair combinations against the Python enum on every run.",
        "Trusted: Coq kernel (vm_compute), vlib/py2coq.py + translate.py (validated exhaustively on this domain), README table parser.",
        "DESIGN.md section 5 C03",
    ),
}

PENDING_REASON = "not yet built in this round: the Coq model/theorems for this property are under construction (see DESIGN.md section 11); no check is claimed until it exists"


def main():
    props = [json.loads(l) for l in open(os.path.join(ROOT, "properties.jsonl"), encoding="utf-8")]
    checks, na = [], []
    for p in props:
        cid = p["id"]
        if cid in CLAIMED:
            tech, text, note, ref = CLAIMED[cid]
            checks.append({
                "property_id": cid,
                "quick_cmd": f"./check {cid} --tier quick",
                "thorough_cmd": f"./check {cid} --tier thorough",
                "evidence_file": f"/verif/evidence/{cid}.json",
                "replay_cmd_template": f"./check {cid} --replay {{path}}",
                "engine": "coq-model",
                "level_claimed": {"category": "proof", "text": text, "design_ref": ref},
                "level_note": note,
                "technique": tech,
            })
        else:
            na.append({"property_id": cid, "reason": NA.get(cid, PENDING_REASON)})
    man = {
        "version": 1,
        "setup_cmd": "./check --setup",
        "hooks": {
            "guard": "AHBICHT_VERIF",
            "enable": "none needed: no hook commits exist in /repo; checks import /repo/src directly (PYTHONPATH forced by ./check) and set AHBICHT_VERIF=1 for uniformity",
            "baseline_off_cmd": "cd /repo && /venv/bin/python -m pytest -ra -q -p no:cacheprovider --timeout=900 --continue-on-collection-errors",
            "source_commits": [],
            "add_only": True,
        },
        "engines": [{
            "name": "coq-model",
            "path": "/verif/coq",
            "serves_properties": sorted(CLAIMED),
            "kind_free_text": "Coq 8.16 development: Gen/ regenerated from /repo by vlib/translate.py, hand-written executable models in Model/, lemmas in Proofs/, one Props/Cxx.v per property; correspondence via generated cases.v + vm_compute",
        }],
        "checks": checks,
        "notes": "Entry point ./check <id> --tier quick|thorough; VERIF_SEED seeds every random choice. Known findings: known_findings.txt.",
        "not_applicable": na,
    }
    with open(os.path.join(ROOT, "MANIFEST.json"), "w", encoding="utf-8") as f:
        json.dump(man, f, indent=1, ensure_ascii=False)
        f.write("\n")


NA = {}

if __name__ == "__main__":
    main()
