"""
Concurrent evaluations on ahbicht's OWN content-evaluation-result based evaluators (create_content_evaluation_result_based_evaluators): one shared
set of evaluator instances (SingletonTokenLogicProvider), every evaluation takes its ContentEvaluationResult from context-local storage (a ContextVar
behind the EvaluatableDataProvider -- the pattern of is_valid_expression). Several evaluations with DIFFERENT data are gathered; each must return what it
returns when it runs alone (and, for format constraints, the Boolean value of the expression under ITS OWN truth assignment).
Implementation-side oracle only (used by C08 and C12); every random choice comes from the run's PRNG.
"""
import asyncio
import itertools
from contextvars import ContextVar

from vlib import impl  # noqa: F401  (path setup)
import ahbicht.content_evaluation  # noqa: F401,E402  (first: ahbicht's modules import each other in a cycle that only resolves from here)

_var = ContextVar("verif_cer_body", default=None)


def _configure():
    import inject
    from efoli import EdifactFormat, EdifactFormatVersion
    from ahbicht.content_evaluation.evaluationdatatypes import EvaluatableData, EvaluatableDataProvider
    from ahbicht.content_evaluation.evaluator_factory import create_content_evaluation_result_based_evaluators
    from ahbicht.content_evaluation.token_logic_provider import SingletonTokenLogicProvider, TokenLogicProvider

    fmt, ver = EdifactFormat.UTILMD, EdifactFormatVersion.FV2210
    evaluators = create_content_evaluation_result_based_evaluators(fmt, ver)

    def cfg(binder):
        binder.bind(TokenLogicProvider, SingletonTokenLogicProvider([*evaluators]))
        binder.bind_to_provider(EvaluatableDataProvider, lambda: EvaluatableData(body=_var.get(), edifact_format=fmt, edifact_format_version=ver))

    inject.clear_and_configure(cfg)


def _body(rc=None, fc=None, hints=None, packages=None):
    from ahbicht.models.condition_nodes import ConditionFulfilledValue, EvaluatedFormatConstraint
    from ahbicht.models.content_evaluation_result import ContentEvaluationResult, ContentEvaluationResultSchema

    cer = ContentEvaluationResult(
        hints=dict(hints or {}),
        format_constraints={k: EvaluatedFormatConstraint(format_constraint_fulfilled=v, error_message=None if v else f"Format error {k}") for k, v in (fc or {}).items()},
        requirement_constraints={k: ConditionFulfilledValue[v] for k, v in (rc or {}).items()},
        packages=dict(packages) if packages else None,
    )
    return ContentEvaluationResultSchema().dump(cer)


def _beval(e, a):
    """Boolean value of a nested ('U'|'O'|'X', l, r) / key expression"""
    if isinstance(e, str):
        return a[e]
    op, l, r = e
    x, y = _beval(l, a), _beval(r, a)
    return (x and y) if op == "U" else (x or y) if op == "O" else (x != y)


def _render(e, top=True):
    if isinstance(e, str):
        return f"[{e}]"
    op, l, r = e
    s = f"{_render(l, False)} {op} {_render(r, False)}"
    return s if top else f"({s})"


def _rand_fc_expr(rng, keys, depth):
    if depth == 0 or rng.random() < 0.3:
        return rng.choice(keys)
    return (rng.choice("UOX"), _rand_fc_expr(rng, keys, depth - 1), _rand_fc_expr(rng, keys, depth - 1))


def _outcome(fn):
    try:
        return ("ok", fn())
    except BaseException as e:  # pylint: disable=broad-except
        if isinstance(e, (KeyboardInterrupt, SystemExit, MemoryError)):
            raise
        return ("exn", impl.exc_class(e))


def _run_group(make_coro, bodies, order):
    """runs make_coro(body) for the bodies in `order` concurrently (each task binds its own body first); list of outcomes"""

    async def one(b):
        _var.set(b)
        try:
            return ("ok", await make_coro())
        except Exception as e:  # pylint: disable=broad-except
            return ("exn", impl.exc_class(e))

    async def main():
        return await asyncio.gather(*[one(bodies[i]) for i in order])

    return asyncio.run(main())


def fc_oracle(ctx, prop):
    """format_constraint_evaluation, several truth assignments in flight at once. returns the number of evaluations"""
    import inject
    from ahbicht.expressions.format_constraint_expression_evaluation import format_constraint_evaluation

    rng = ctx.rng
    keys = ["901", "902", "903"]
    exprs = [("X", "901", "902"), ("U", "901", ("X", "902", "903")), ("O", ("U", "901", "902"), "903"), "901", ("X", ("X", "901", "902"), "903")]
    exprs += [_rand_fc_expr(rng, keys, 3) for _ in range(4 if ctx.quick else 40)]
    n = 0
    _configure()
    try:
        for e in exprs:
            text = _render(e)
            assigns = [dict(zip(keys, bits)) for bits in itertools.product((True, False), repeat=3)]
            groups = [(0, 7), (7, 0), (1, 6, 3), (2, 5), (0, 1, 2, 3, 4, 5, 6, 7)]
            groups += [tuple(rng.sample(range(8), rng.randint(2, 4))) for _ in range(3 if ctx.quick else 20)]
            bodies = [_body(fc=a) for a in assigns]
            for order in groups:
                got = _run_group(lambda: format_constraint_evaluation(text), bodies, order)
                n += len(order)
                for pos, i in enumerate(order):
                    want = _beval(e, assigns[i])
                    g = got[pos]
                    obs = (g[1].format_constraints_fulfilled, g[1].error_message is not None) if g[0] == "ok" else g[1]
                    if obs != (want, not want):
                        ctx.fail(f"concurrent-fc|{text}|{order}|{pos}",
                                 {"kind": "concurrent_fc", "expression": text, "assignments": [assigns[j] for j in order], "position": pos},
                                 f"(fulfilled, has message) = {(want, not want)} under its own assignment {assigns[i]}", str(obs),
                                 "oracle: each of several concurrent format-constraint evaluations (content-evaluation-result based evaluators, data in context-local storage) "
                                 "yields the Boolean value under its own truth assignment")
                        break
    finally:
        inject.clear()
    return n


def mixed_oracle(ctx, prop):
    """requirement / AHB evaluation and package expansion with different data in flight at once; each as when run alone"""
    import inject
    from ahbicht.expressions.ahb_expression_evaluation import evaluate_ahb_expression_tree
    from ahbicht.expressions.expression_resolver import parse_expression_including_unresolved_subexpressions as resolve
    from ahbicht.expressions.requirement_constraint_expression_evaluation import requirement_constraint_evaluation

    rng = ctx.rng
    n = 0
    states = ("FULFILLED", "UNFULFILLED", "UNKNOWN")

    def rc_obs(r):
        return (r.requirement_constraints_fulfilled, r.requirement_is_conditional, r.format_constraints_expression, r.hints)

    def ahb_obs(r):
        return (str(r.requirement_indicator), rc_obs(r.requirement_constraint_evaluation_result), r.format_constraint_evaluation_result.format_constraints_fulfilled,
                r.format_constraint_evaluation_result.error_message)

    _configure()
    try:
        scen = []
        # requirement constraints + hints + attached format constraints
        for expr in ("[1] U ([2] O [3])[901] U [501]", "([1] X [2])[902] O [3][901]", "[1][901] U [2][902] U [502]"):
            datas = [_body(rc=dict(zip("123", [rng.choice(states) for _ in "123"])), fc={"901": rng.random() < 0.5, "902": rng.random() < 0.5},
                           hints={"501": f"hint {j} a", "502": f"hint {j} b"}) for j in range(5)]

            async def rc_coro(expr=expr):
                return rc_obs(await requirement_constraint_evaluation(expr))

            scen.append(("requirement_constraint_evaluation", expr, rc_coro, datas))
            # the same expression handed over as ONE already parsed tree that all evaluations share (a caller parses once and evaluates many times);
            # the reference for each is the evaluation of the string on its own
            from ahbicht.expressions.condition_expression_parser import parse_condition_expression_to_tree

            shared = parse_condition_expression_to_tree(expr)

            async def rc_tree_coro(shared=shared):
                return rc_obs(await requirement_constraint_evaluation(shared))

            scen.append(("requirement_constraint_evaluation(one parsed tree shared by all evaluations)", expr, rc_tree_coro, datas, rc_coro))
        for expr in ("Muss [1] U [2][901] Soll [3] Kann [2][902]", "X ([1] O [2])[901] U [501]", "Muss [1] Kann"):
            tree = asyncio.run(resolve(expr))
            datas = [_body(rc=dict(zip("123", [rng.choice(states[:2]) for _ in "123"])), fc={"901": rng.random() < 0.5, "902": rng.random() < 0.5},
                           hints={"501": f"hint {j}"}) for j in range(5)]

            async def ahb_coro(tree=tree):
                return ahb_obs(await evaluate_ahb_expression_tree(tree))

            scen.append(("evaluate_ahb_expression_tree", expr, ahb_coro, datas))
        for expr in ("[1P] U [2] U [3P]", "Muss [1P] O [2P0..1] Soll [3P]"):
            datas = [_body(packages={"1P": rng.choice(("[11] U [12]", "[13]", "[11] O [14][901]")), "2P": rng.choice(("[21]", "[22] X [23]")),
                                     "3P": rng.choice(("[31]", "[UB1] U [32]"))}) for _ in range(4)]

            async def pkg_coro(expr=expr):
                return str(await resolve(expr, resolve_packages=True))

            scen.append(("parse_expression_including_unresolved_subexpressions(resolve_packages=True)", expr, pkg_coro, datas))
        for entry, expr, coro, datas, *ref in scen:
            alone = [_run_group(ref[0] if ref else coro, datas, (i,))[0] for i in range(len(datas))]
            orders = [(0, 1), (1, 0), (0, 1, 2), (3, 2, 1, 0), tuple(range(len(datas)))]
            orders += [tuple(rng.sample(range(len(datas)), rng.randint(2, len(datas)))) for _ in range(2 if ctx.quick else 10)]
            for order in orders:
                if max(order) >= len(datas):
                    continue
                got = _run_group(coro, datas, order)
                n += len(order)
                want = [alone[i] for i in order]
                if got != want:
                    pos = next(p for p in range(len(order)) if got[p] != want[p])
                    ctx.fail(f"concurrent-cer|{entry}|{expr}|{order}", {"kind": "concurrent_cer", "entry": entry, "expression": expr, "data": [datas[i] for i in order], "position": pos},
                             f"as when run alone: {want[pos]}", f"{got[pos]}",
                             "oracle: concurrent evaluations that take their content evaluation result from context-local storage each see only their own data")
                    break
    finally:
        inject.clear()
    return n


def rc_history_oracle(ctx, how, n_expr=12):
    """requirement_constraint_evaluation on ahbicht's own content-evaluation-result based evaluators, one evaluation after the other, the assignment
    delivered the ways a caller can deliver it: a freshly dumped body per evaluation, and ONE body dict whose content is replaced in place between
    evaluations (an evaluatable-data provider that hands out its current message object). Every evaluation must report the outcome the compositional
    semantics gives for ITS assignment. returns the number of evaluations"""
    import inject
    from ahbicht.expressions.requirement_constraint_expression_evaluation import requirement_constraint_evaluation
    from ahbicht.models.condition_nodes import ConditionFulfilledValue as V

    from vlib import exprs

    rng = ctx.rng
    want_outcome = {V.FULFILLED: (True, True), V.NEUTRAL: (True, False), V.UNFULFILLED: (False, True), V.UNKNOWN: (None, None)}
    trees = [("L", "1"), ("and", ("L", "1"), ("L", "2")), ("or", ("L", "1"), ("L", "2")), ("xor", ("and", ("L", "1"), ("L", "2")), ("L", "3")),
             ("and", ("L", "1"), ("L", "501")), ("then", ("or", ("L", "2"), ("L", "3")), ("L", "901"))]
    for _ in range(n_expr):
        for _try in range(30):
            t = exprs.random_dom_tree(rng, rng.randint(2, 5), ["1", "2", "3"], ["501", "502"], ["901", "902"])
            if exprs.valid(t):
                trees.append(t)
                break
    n = 0
    _configure()
    try:
        for t in trees:
            text = exprs.to_string(t)
            rk = sorted({k for k in exprs.leaves(t) if exprs.kind(k) == "rc"})
            hints = {k: f"Hinweis {k}" for k in exprs.leaves(t) if exprs.kind(k) == "hint"}
            fcs = {k: True for k in exprs.leaves(t) if exprs.kind(k) == "fc"}
            assigns = list(exprs.assignments(rk, ("FULFILLED", "UNFULFILLED", "UNKNOWN")))
            rng.shuffle(assigns)
            assigns = assigns[:9]
            shared = {}
            for mode in ("fresh body per evaluation", "one body updated in place"):
                for rho in assigns:
                    b = _body(rc=rho, fc=fcs, hints=hints)
                    if mode.startswith("one"):
                        shared.clear()
                        shared.update(b)
                        b = shared
                    _var.set(b)
                    res = _outcome(lambda: asyncio.run(_in_context(requirement_constraint_evaluation, text, b)))
                    n += 1
                    want = want_outcome[exprs.sem(t, {k: V[s] for k, s in rho.items()}, V)]
                    got = (res[1].requirement_constraints_fulfilled, res[1].requirement_is_conditional) if res[0] == "ok" else f"raises {res[1]}"
                    if got != want:
                        ctx.fail(f"cer-history|{text}|{sorted(rho.items())}|{mode}", {"kind": "cer-history", "expression": text, "rc": rho, "delivery": mode,
                                                                                      "earlier_assignments": [dict(a) for a in assigns[:assigns.index(rho)]]},
                                 f"(fulfilled, conditional) = {want}", str(got), how)
                        break
    finally:
        inject.clear()
    return n


async def _in_context(fn, arg, body):
    _var.set(body)
    return await fn(arg)
