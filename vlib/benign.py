"""
Rehearsal with behaviour-preserving refactorings: apply each /verif/benign/Rxx.diff to /repo, run the checks of the properties its file is
anchored in, undo it. A check that stays silent is the wanted outcome; one that reports `no-failing-input-found` failed closed (a translator or a
correspondence no longer recognises the source although the property still holds); one that reports a failing input would be a false alarm.
usage: /venv/bin/python -m vlib.benign [Rxx ...] [--all-checks]
"""
import json
import os
import shutil
import subprocess
import sys
import tempfile
import time

ROOT = os.path.dirname(os.path.dirname(os.path.abspath(__file__)))
BENIGN = os.path.join(ROOT, "benign")
REPO = os.environ.get("VERIF_REPO", "/repo")   # another tree (with a copy of /verif as ROOT) lets this run next to other runs
CHECKS_FOR = {
    "utility_functions.py": ["C11", "C10"],
    "condition_nodes.py": ["C03", "C04", "C06"],
    "validation.py": ["C13", "C14", "C15", "C16", "C17"],
    "condition_node_distinction.py": ["C18", "C04"],
    "condition_expression_parser.py": ["C01", "C02", "C18"],
    "ahb_expression_evaluation.py": ["C09", "C12", "C16"],
    "expression_resolver.py": ["C02", "C10", "C18"],
    "requirement_constraint_expression_evaluation.py": ["C04", "C05", "C06", "C07"],
    "expression_builder.py": ["C07", "C08", "C04"],
    "categorized_key_extract.py": ["C18", "C06", "C19"],
    "german_strom_and_gas_tag.py": ["C20"],
    "rc_evaluators.py": ["C12", "C04"],
    "evaluation_results.py": ["C19", "C09"],
    "content_evaluation_result.py": ["C19", "C06"],
    "tree_schema.py": ["C19"],
    "ahb_expression_parser.py": ["C02", "C09", "C11"],
    "enums.py": ["C09", "C14", "C13", "C19"],
    "fc_evaluators.py": ["C08", "C15", "C12", "C20"],
    "format_constraint_expression_evaluation.py": ["C08", "C07", "C09"],
    "package_expansion.py": ["C10", "C17", "C18"],
}


def sh(cmd):
    return subprocess.run(cmd, shell=True, capture_output=True, text=True)


def main(argv):
    names = [a for a in argv if not a.startswith("--")] or sorted(f[:-5] for f in os.listdir(BENIGN) if f.endswith(".diff"))
    claimed = [c["property_id"] for c in json.load(open(os.path.join(ROOT, "MANIFEST.json")))["checks"]]
    if sh(f"git -C {REPO} status --porcelain").stdout.strip():
        print(f"refusing: {REPO} has uncommitted changes")
        return 2
    keep = tempfile.mkdtemp(prefix="evidence_keep_", dir=os.path.join(ROOT, "work"))
    shutil.copytree(os.path.join(ROOT, "evidence"), os.path.join(keep, "evidence"))
    results = {}
    for name in names:
        patch = os.path.join(BENIGN, name + ".diff")
        files = [l[6:].strip() for l in open(patch) if l.startswith("+++ b/")]
        checks = claimed if "--all-checks" in argv else sorted({c for f in files for c in CHECKS_FOR.get(os.path.basename(f), claimed)})
        if sh(f"git -C {REPO} apply {patch}").returncode != 0:
            results[name] = {"error": "patch does not apply"}
            continue
        res = {}
        try:
            for c in checks:
                t0 = time.time()
                out = sh(f"cd {ROOT} && timeout 1800 ./check {c} --tier quick")
                v = [l for l in out.stdout.splitlines() if l.startswith("VIOLATION")]
                res[c] = ("silent" if out.returncode == 0 and not v else "failed closed (no-failing-input-found)" if v and all("no-failing-input-found" in l for l in v)
                          else "FALSE ALARM with a failing input: " + v[0] if v else f"exit {out.returncode} without VIOLATION line")
                print(f"{name}: {c}: {res[c]} ({time.time() - t0:.0f}s)", flush=True)
        finally:
            sh(f"git -C {REPO} checkout -- .")
        results[name] = {"files": files, "checks": res}
    shutil.rmtree(os.path.join(ROOT, "evidence"))
    shutil.copytree(os.path.join(keep, "evidence"), os.path.join(ROOT, "evidence"))
    shutil.rmtree(keep)
    sh(f"cd {ROOT} && /venv/bin/python -m vlib.regen")
    path = os.path.join(BENIGN, "results.json")
    merged = json.load(open(path)) if os.path.exists(path) else {}
    for k, v in results.items():   # keep the outcomes of checks that were not run this time
        old = merged.get(k, {})
        merged[k] = {"files": v.get("files", old.get("files")), "checks": {**old.get("checks", {}), **v.get("checks", {})}}
    with open(path, "w") as f:
        json.dump(merged, f, indent=1, sort_keys=True)
    return 0


if __name__ == "__main__":
    sys.exit(main(sys.argv[1:]))
