"""Gen_ahbeval: evaluate_ahb_expression_tree end to end on a small scope enumerated completely (tie T for `eval_ahb` of Model/EvalAhb.v: token callbacks,
evaluation of every part -- requirement constraints, then the format constraints it collected --, bare indicators, the selection and the conditional flag).

Every AHB expression of one part (five indicator spellings x six condition shapes incl. none) or two modal-mark parts (three spellings x four shapes each)
is resolved and evaluated by the loaded functions under every assignment of FULFILLED / UNFULFILLED / UNKNOWN to the requirement keys {1, 2} and both
truth values of the format constraint 901 (with a message when unfulfilled). The row records the reported indicator, requirement result and format
result, or the exception class. Proofs/C09_eval.v compares the rows with eval_ahb by vm_compute."""
import asyncio
import itertools

from vlib.translate import HEADER

CONDS = ["[1]", "[2][901]", "[501]", "[1] U [501]", "[1] O [2]", ""]


def generate():
    from vlib import evalimpl, valcorr
    from vlib.exprs import gcer
    from ahbicht.expressions.ahb_expression_evaluation import evaluate_ahb_expression_tree

    exprs_ = [i + c for i in ("Muss", "soll", "K", "X", "u") for c in CONDS]
    two = [i + c for i in ("Muss", "S", "kann") for c in CONDS[:4]]
    exprs_ += [a + " " + b for a in two for b in two]
    rows = []
    try:
        for s in exprs_:
            for st1, st2 in itertools.product(("FULFILLED", "UNFULFILLED", "UNKNOWN"), repeat=2):
                if "[2]" not in s and st2 != "FULFILLED":
                    continue
                if "[1]" not in s and st1 != "FULFILLED":
                    continue
                for f in ((True, False) if "[901]" in s else (True,)):
                    rc, h, fc = {"1": st1, "2": st2}, {"501": "H501"}, {"901": (f, None if f else "901 muss erfüllt sein")}
                    evalimpl.set_cer(rc=rc, hints=h, fc=fc)
                    res = valcorr.resolved(s)
                    nx = valcorr.nx_term(res)
                    if not nx.startswith("(Ok "):
                        raise ValueError(f"the resolved tree of {s!r} is outside the model's domain: {nx}")
                    raw = evalimpl.outcome(lambda: asyncio.run(evaluate_ahb_expression_tree(res[1])))
                    rows.append(f"  ({gcer(rc, h, fc)}, {nx}, {valcorr.ahb_obs(raw)})")
    finally:
        evalimpl.set_cer()
    return (HEADER.format(src="expressions/ahb_expression_evaluation.py (evaluate_ahb_expression_tree, executed)")
            + "From Ahb Require Import Model.Prelude Model.Grammar Gen.Gen_logic Gen.Gen_valmaps Gen.Gen_enums Model.EvalRC Model.EvalFC Model.EvalAhb Corr.Eval Corr.Validate.\n"
            "Definition ahb_rows : list ahb_case := [\n" + ";\n".join(rows) + "\n].\n")
