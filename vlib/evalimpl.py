"""Runs ahbicht's evaluation entry points with dict-based evaluators answering from a mutable CER."""
import asyncio

from vlib import impl  # noqa: F401  (path setup)
import inject
from efoli import EdifactFormat, EdifactFormatVersion

from ahbicht.content_evaluation.evaluationdatatypes import EvaluatableData, EvaluatableDataProvider
from ahbicht.content_evaluation.fc_evaluators import DictBasedFcEvaluator
from ahbicht.content_evaluation.rc_evaluators import DictBasedRcEvaluator
from ahbicht.content_evaluation.token_logic_provider import SingletonTokenLogicProvider, TokenLogicProvider
from ahbicht.expressions.hints_provider import DictBasedHintsProvider
from ahbicht.expressions.package_expansion import DictBasedPackageResolver
from ahbicht.models.condition_nodes import ConditionFulfilledValue, EvaluatedFormatConstraint

FMT, VER = EdifactFormat.UTILMD, EdifactFormatVersion.FV2210
_RC, _FC, _HINTS, _PKG = {}, {}, {}, {}
_DATA = EvaluatableData(body={}, edifact_format=FMT, edifact_format_version=VER)
_configured = False


_OURS = [None]


def configure():
    global _configured
    evs = [DictBasedRcEvaluator(_RC), DictBasedFcEvaluator(_FC), DictBasedHintsProvider(_HINTS), DictBasedPackageResolver(_PKG)]
    for e in evs:
        e.edifact_format, e.edifact_format_version = FMT, VER
    provider = SingletonTokenLogicProvider(evs)

    def cfg(binder):
        binder.bind(TokenLogicProvider, provider)
        binder.bind_to_provider(EvaluatableDataProvider, lambda: _DATA)

    inject.clear_and_configure(cfg)
    _OURS[0] = provider
    _configured = True


def _still_ours():
    """somebody else (a harness with its own evaluators, a generator) may have re-configured the injector since: the flag alone does not tell"""
    try:
        return inject.is_configured() and inject.instance(TokenLogicProvider) is _OURS[0]
    except Exception:  # pylint: disable=broad-except
        return False


def set_cer(rc=None, hints=None, fc=None, packages=None):
    """rc: {key: state name}; hints: {key: str|None}; fc: {key: (bool, msg|None)}; packages: {key: expr|None}"""
    if not _configured or not _still_ours():
        configure()
    _RC.clear()
    _RC.update({k: ConditionFulfilledValue[v] for k, v in (rc or {}).items()})
    _HINTS.clear()
    _HINTS.update(hints or {})
    _FC.clear()
    _FC.update({k: EvaluatedFormatConstraint(format_constraint_fulfilled=v[0], error_message=v[1]) for k, v in (fc or {}).items()})
    _PKG.clear()
    _PKG.update(packages or {})


def outcome(fn):
    """run fn(); returns ('ok', value) or ('exn', gallina exn term)"""
    try:
        return ("ok", fn())
    except BaseException as e:  # pylint: disable=broad-except
        if isinstance(e, (KeyboardInterrupt, SystemExit, MemoryError)):
            raise
        return ("exn", impl.exc_class(e))


def rc_evaluation(lark_tree):
    from ahbicht.expressions.requirement_constraint_expression_evaluation import requirement_constraint_evaluation

    return asyncio.run(requirement_constraint_evaluation(lark_tree))


def fc_evaluation(expr):
    from ahbicht.expressions.format_constraint_expression_evaluation import format_constraint_evaluation

    return asyncio.run(format_constraint_evaluation(expr))


def node_evaluation(lark_tree):
    """evaluate_requirement_constraint_tree with the nodes the ConditionNodeBuilder builds"""
    from lark import Token

    from ahbicht.condition_node_builder import ConditionNodeBuilder
    from ahbicht.expressions.requirement_constraint_expression_evaluation import evaluate_requirement_constraint_tree

    keys = [t.value for t in lark_tree.scan_values(lambda v: isinstance(v, Token))]
    nodes = asyncio.run(ConditionNodeBuilder(keys).requirement_content_evaluation_for_all_condition_keys())
    return evaluate_requirement_constraint_tree(lark_tree, nodes)
