"""
Tie T for C11: coq/Gen/Gen_cache.v is regenerated from the source on every run.

Read with `ast` (nothing is imported or executed):
  * utility_functions.py: the `return` expression of `decorated` inside `tree_copy`, classified as
      CopyDeep     deepcopy(tree_result) / copy.deepcopy(tree_result)
      CopyShallow  tree_result.copy()    / copy.copy(tree_result) / copy(tree_result)
      NoCopy       tree_result                      (the cached object itself)
    where `tree_result` must be the single assignment `tree_result = lru_cached_parsing_func(*args, **kwargs)`;
  * the decorator stacks of the two cached parse functions: exactly `@tree_copy` outermost, then
    `@lru_cache(maxsize=<int literal>)` (the reversed order is recognised and reported as wrapper_order_ok = false:
    then the *copy* would be cached and handed out again and again);
  * whether the cached functions contain a `raise` (lru_cache does not cache exceptions).
Anything else: Untranslatable (fail closed; the run counts the obligation as broken).
"""
import ast
import os
import warnings

REPO = os.environ.get("VERIF_REPO", "/repo")
SRC = os.path.join(REPO, "src", "ahbicht")

PARSE_FUNCS = (
    ("expressions/condition_expression_parser.py", "parse_condition_expression_to_tree"),
    ("expressions/ahb_expression_parser.py", "parse_ahb_expression_to_single_requirement_indicator_expressions"),
)


class Untranslatable(Exception):
    pass


def _parse(rel):
    path = os.path.join(SRC, rel)
    with open(path, encoding="utf-8") as f, warnings.catch_warnings():
        warnings.simplefilter("ignore")  # SyntaxWarning for '\\B' in a non-raw grammar string of the source
        return ast.parse(f.read()), path


def _imports(mod):
    """module-level bindings made by import statements: local name -> dotted origin"""
    out = {}
    for n in mod.body:
        if isinstance(n, ast.Import):
            for a in n.names:
                out[a.asname or a.name.split(".")[0]] = a.name
        elif isinstance(n, ast.ImportFrom):
            for a in n.names:
                out[a.asname or a.name] = f"{n.module}.{a.name}"
    return out


def _rebound(mod, names):
    """names that are (re)bound at module level by something other than an import"""
    bad = set()
    for n in mod.body:
        if isinstance(n, (ast.FunctionDef, ast.AsyncFunctionDef, ast.ClassDef)) and n.name in names:
            bad.add(n.name)
        for t in getattr(n, "targets", []) + ([n.target] if isinstance(n, (ast.AnnAssign, ast.AugAssign)) else []):
            for x in ast.walk(t):
                if isinstance(x, ast.Name) and x.id in names:
                    bad.add(x.id)
    return bad


def _func(container, name):
    found = [n for n in container.body if isinstance(n, ast.FunctionDef) and n.name == name]
    if len(found) != 1:
        raise Untranslatable(f"expected exactly one plain function {name}, found {len(found)}")
    return found[0]


def _is_name(e, ident):
    return isinstance(e, ast.Name) and e.id == ident


def _is_call_of_cached(e, param):
    """lru_cached_parsing_func(*args, **kwargs)"""
    return (isinstance(e, ast.Call) and _is_name(e.func, param) and len(e.args) == 1 and isinstance(e.args[0], ast.Starred)
            and _is_name(e.args[0].value, "args") and len(e.keywords) == 1 and e.keywords[0].arg is None
            and _is_name(e.keywords[0].value, "kwargs"))


def _is_cache_size(e, param):
    """lru_cached_parsing_func.cache_info().currsize"""
    return (isinstance(e, ast.Attribute) and e.attr == "currsize" and isinstance(e.value, ast.Call) and not e.value.args
            and not e.value.keywords and isinstance(e.value.func, ast.Attribute) and e.value.func.attr == "cache_info"
            and _is_name(e.value.func.value, param))


def _pure_expr(e, locals_ok, param=None):
    """an expression that can neither touch the cached tree nor have an effect: comparisons / Boolean combinations of harmless locals,
    constants and (if param is given) reads of the cache size"""
    if param is not None and _is_cache_size(e, param):
        return True
    if isinstance(e, ast.Constant):
        return True
    if isinstance(e, ast.Name):
        return e.id in locals_ok
    if isinstance(e, ast.Compare):
        return all(isinstance(o, (ast.Eq, ast.NotEq, ast.Lt, ast.LtE, ast.Gt, ast.GtE)) for o in e.ops) and \
            all(_pure_expr(x, locals_ok, param) for x in [e.left] + list(e.comparators))
    if isinstance(e, ast.BoolOp):
        return all(_pure_expr(x, locals_ok, param) for x in e.values)
    if isinstance(e, ast.UnaryOp) and isinstance(e.op, ast.Not):
        return _pure_expr(e.operand, locals_ok, param)
    return False


def _is_log_call(stmt):
    """parsing_logger.<level>(...) whose arguments only read names, constants and args[0]"""
    if not (isinstance(stmt, ast.Expr) and isinstance(stmt.value, ast.Call)):
        return False
    c = stmt.value
    if not (isinstance(c.func, ast.Attribute) and _is_name(c.func.value, "parsing_logger")
            and c.func.attr in ("log", "debug", "info", "warning")):
        return False
    for a in list(c.args) + [k.value for k in c.keywords]:
        for x in ast.walk(a):
            if not isinstance(x, (ast.Name, ast.Constant, ast.Subscript, ast.Load)):
                return False
    return True


def copy_mode():
    mod, path = _parse("utility_functions.py")
    imports = _imports(mod)
    rebound = _rebound(mod, {"deepcopy", "copy"})
    tc = _func(mod, "tree_copy")
    if tc.decorator_list:
        raise Untranslatable("tree_copy is itself decorated")
    pos = tc.args
    if len(pos.args) != 1 or pos.vararg or pos.kwarg or pos.kwonlyargs or pos.posonlyargs:
        raise Untranslatable("tree_copy must take exactly one positional parameter")
    param = pos.args[0].arg
    body = [s for s in tc.body if not (isinstance(s, ast.Expr) and isinstance(s.value, ast.Constant))]  # docstring
    if len(body) != 2 or not isinstance(body[0], ast.FunctionDef) or body[0].name != "decorated":
        raise Untranslatable("tree_copy must consist of `def decorated` and `return decorated`")
    if not (isinstance(body[1], ast.Return) and _is_name(body[1].value, "decorated")):
        raise Untranslatable("tree_copy must return `decorated`")
    dec = body[0]
    a = dec.args
    if dec.decorator_list or a.args or a.kwonlyargs or a.posonlyargs or not a.vararg or not a.kwarg \
            or a.vararg.arg != "args" or a.kwarg.arg != "kwargs":
        raise Untranslatable("decorated must be `def decorated(*args, **kwargs)` without decorators")
    result_var, locals_ok, ret = None, set(), None
    for s in dec.body:
        if ret is not None:
            raise Untranslatable("statement after the return of decorated")
        if isinstance(s, ast.Expr) and isinstance(s.value, ast.Constant):
            continue
        if isinstance(s, (ast.Assign, ast.AnnAssign)):
            targets = s.targets if isinstance(s, ast.Assign) else [s.target]
            if len(targets) != 1 or not isinstance(targets[0], ast.Name) or s.value is None:
                raise Untranslatable("unsupported assignment in decorated: " + ast.unparse(s))
            name = targets[0].id
            if name in locals_ok or name == result_var or name in ("args", "kwargs", param):
                raise Untranslatable(f"local {name} assigned twice in decorated")
            if _is_call_of_cached(s.value, param):
                if result_var is not None:
                    raise Untranslatable("the cached function is called more than once")
                result_var = name
            elif _pure_expr(s.value, locals_ok, param):
                locals_ok.add(name)   # a cache size, or a comparison of such: never the tree
            else:
                raise Untranslatable("unsupported assignment in decorated: " + ast.unparse(s))
        elif isinstance(s, ast.If):
            if not _pure_expr(s.test, locals_ok, param) or not all(_is_log_call(x) or isinstance(x, ast.Pass) for x in list(s.body) + list(s.orelse)):
                raise Untranslatable("unsupported if-statement in decorated: " + ast.unparse(s))
        elif _is_log_call(s):
            pass
        elif isinstance(s, ast.Return):
            ret = s.value
        else:
            raise Untranslatable("unsupported statement in decorated: " + ast.unparse(s))
    if ret is None or result_var is None:
        raise Untranslatable("decorated does not return the result of the cached function")
    src = ast.unparse(ret)

    def arg_is_result(call):
        return len(call.args) == 1 and not call.keywords and _is_name(call.args[0], result_var)

    mode = None
    if _is_name(ret, result_var):
        mode = "NoCopy"
    elif isinstance(ret, ast.Call):
        f = ret.func
        if isinstance(f, ast.Name) and f.id not in rebound and arg_is_result(ret):
            mode = {"copy.deepcopy": "CopyDeep", "copy.copy": "CopyShallow"}.get(imports.get(f.id))
        elif isinstance(f, ast.Attribute) and isinstance(f.value, ast.Name) and imports.get(f.value.id) == "copy" \
                and f.value.id not in rebound and arg_is_result(ret):
            mode = {"deepcopy": "CopyDeep", "copy": "CopyShallow"}.get(f.attr)
        elif isinstance(f, ast.Attribute) and _is_name(f.value, result_var) and not ret.args and not ret.keywords:
            mode = {"copy": "CopyShallow", "__copy__": "CopyShallow"}.get(f.attr)  # lark Tree.copy(): same children list
    if mode is None:
        raise Untranslatable(f"return expression of tree_copy.decorated not recognised: `{src}`")
    return mode, src, path


def decorator_stack(rel, fname):
    mod, path = _parse(rel)
    imports = _imports(mod)
    fn = _func(mod, fname)
    if _rebound(mod, {"tree_copy", "lru_cache"}):
        raise Untranslatable(f"{rel}: tree_copy / lru_cache rebound at module level")
    if len(fn.args.args) != 1 or fn.args.vararg or fn.args.kwarg or fn.args.kwonlyargs or fn.args.defaults:
        raise Untranslatable(f"{fname} must take exactly one parameter (the string is the cache key)")

    def kind(d):
        if isinstance(d, ast.Name) and imports.get(d.id) == "ahbicht.utility_functions.tree_copy":
            return ("tree_copy", None)
        if isinstance(d, ast.Call) and isinstance(d.func, ast.Name) and imports.get(d.func.id) == "functools.lru_cache":
            if d.args or len(d.keywords) != 1 or d.keywords[0].arg != "maxsize":
                raise Untranslatable(f"{fname}: lru_cache must be called as lru_cache(maxsize=<int>): {ast.unparse(d)}")
            v = d.keywords[0].value
            if not (isinstance(v, ast.Constant) and type(v.value) is int and 0 <= v.value <= 100000):
                raise Untranslatable(f"{fname}: maxsize must be a small non-negative int literal: {ast.unparse(d)}")
            return ("lru_cache", v.value)
        raise Untranslatable(f"{fname}: unknown decorator {ast.unparse(d)}")

    kinds = [kind(d) for d in fn.decorator_list]
    names = [k for k, _ in kinds]
    if sorted(names) != ["lru_cache", "tree_copy"]:
        raise Untranslatable(f"{fname}: decorator stack must be tree_copy + lru_cache, found {names}")
    maxsize = [m for k, m in kinds if k == "lru_cache"][0]
    order_ok = names == ["tree_copy", "lru_cache"]  # decorator_list[0] is the outermost
    can_raise = any(isinstance(x, ast.Raise) for x in ast.walk(fn))
    return {"function": fname, "maxsize": maxsize, "order_ok": order_ok, "can_raise": can_raise, "path": path}


def facts():
    mode, src, path = copy_mode()
    stacks = [decorator_stack(rel, fn) for rel, fn in PARSE_FUNCS]
    sizes = {s["maxsize"] for s in stacks}
    if len(sizes) != 1:
        raise Untranslatable(f"the two caches have different sizes {sorted(sizes)}; the model has one cache_maxsize")
    return {"mode": mode, "return_expr": src, "utility_path": path, "maxsize": sizes.pop(),
            "order_ok": all(s["order_ok"] for s in stacks), "can_raise": any(s["can_raise"] for s in stacks), "stacks": stacks}


def generate():
    f = facts()
    b = lambda x: "true" if x else "false"
    out = [
        "From Ahb Require Import Model.Prelude.",
        f"(* GENERATED by vlib/gen_cache.py from {f['utility_path']} and the decorator stacks of",
        "   " + ", ".join(s["function"] for s in f["stacks"]) + " -- do not edit *)",
        "",
        "(* what tree_copy.decorated hands to the caller: the cached Tree object itself (NoCopy), a new Tree object that",
        "   shares the children list of the cached one (CopyShallow = lark's Tree.copy()), or a recursively fresh copy *)",
        "Inductive copy_mode := CopyShallow | CopyDeep | NoCopy.",
        "Definition copy_mode_eqb (a b : copy_mode) : bool :=",
        "  match a, b with CopyShallow, CopyShallow | CopyDeep, CopyDeep | NoCopy, NoCopy => true | _, _ => false end.",
        "",
        "(* return expression of tree_copy.decorated: `" + f["return_expr"].replace("(*", "( *").replace("*)", "* )") + "` *)",
        f"Definition tree_copy_mode : copy_mode := {f['mode']}.",
        "(* @lru_cache(maxsize=...) of both parse functions *)",
        f"Definition cache_maxsize : nat := {f['maxsize']}.",
        "(* both stacks are exactly: @tree_copy outermost, then @lru_cache(maxsize=...) *)",
        f"Definition wrapper_order_ok : bool := {b(f['order_ok'])}.",
        "(* the cached functions contain a `raise` (functools.lru_cache stores nothing when the call raises) *)",
        f"Definition cached_fn_can_raise : bool := {b(f['can_raise'])}.",
    ]
    return "\n".join(out) + "\n"


if __name__ == "__main__":
    print(generate())
