"""Gen_rctail: requirement_constraint_evaluation end to end on a small scope enumerated completely (tie T for `rc_evaluation` of Model/EvalRC.v:
node builder, transformer and the mapping of the root node to the reported result).

Every condition tree with one or two leaves over the keys {1, 2 (requirement constraints), 501 (hint), 901 (format constraint)} x the four operators x
every assignment of FULFILLED / UNFULFILLED / UNKNOWN to its requirement keys is evaluated by the loaded requirement_constraint_evaluation (dict-based
evaluators); the row records the reported result (outcome, conditional flag, collected expression, hints) or the exception class. Proofs/C04_tail.v
compares the rows with rc_evaluation by vm_compute."""
from vlib.translate import HEADER


def generate():
    from vlib import evalcorr, evalimpl, exprs

    keys = ["1", "2", "501", "901"]
    trees = list(exprs.trees(1, keys)) + list(exprs.trees(2, keys))
    rows = []
    try:
        for t in trees:
            rk = sorted({k for k in exprs.leaves(t) if exprs.kind(k) == "rc"})
            hints = evalcorr.default_hints([k for k in exprs.leaves(t) if exprs.kind(k) == "hint"])
            fc = {k: (True, None) for k in exprs.leaves(t) if exprs.kind(k) == "fc"}
            for rho in exprs.assignments(rk, evalcorr.STATES):
                evalimpl.set_cer(rc=rho, hints=hints, fc=fc)
                raw = evalimpl.outcome(lambda: evalimpl.rc_evaluation(exprs.to_lark(t)))
                rows.append(f"  ({exprs.gcer(rho, hints, fc)}, {exprs.to_gallina(t)}, {evalcorr.rc_obs(raw)})")
    finally:
        evalimpl.set_cer()
    return (HEADER.format(src="expressions/requirement_constraint_expression_evaluation.py, condition_node_builder.py (requirement_constraint_evaluation, executed)")
            + "From Ahb Require Import Model.Prelude Model.Grammar Gen.Gen_logic Model.EvalRC Model.EvalFC Corr.Eval.\n"
            "Definition rc_rows : list rc_case := [\n" + ";\n".join(rows) + "\n].\n")
