"""
Fail-closed translator for the small Python subset used by ahbicht's decision tables -> Gallina.

Subset: def with positional parameters; if/elif/else, return, raise <Exc>(...), pass, docstrings,
single-target assignment to a name; expressions Name, Enum.MEMBER, Constant(True/False/None),
Compare (==, !=, is, is not, in <tuple>, chained <=), BoolOp, not, int(x), isinstance(x, Cls),
x.endswith("P").  Anything else raises Untranslatable (the run then counts as a broken obligation).

A statement list is translated with an explicit continuation, so `if` without `else` followed by more
statements is exact; falling off the end is `Exn ReturnedNone`. Locals that are not parameters are
`option`-typed (None until assigned); reading an unassigned local is `Exn UnboundLocal`.
Every generated function has type `... -> result T`.
"""
import ast


class Untranslatable(Exception):
    pass


EXC = {
    "NotImplementedError": "NotImpl",
    "ValueError": "ValueErr",
    "KeyError": "KeyErr",
    "TypeError": "TypeErr",
    "SyntaxError": "SyntaxErr",
}


class Enum:
    def __init__(self, pyname, coqtype, prefix, members):
        self.pyname, self.coqtype, self.prefix, self.members = pyname, coqtype, prefix, list(members)

    def decl(self):
        cs = " | ".join(self.prefix + m for m in self.members)
        eq = " | ".join(f"{self.prefix}{m}, {self.prefix}{m}" for m in self.members)
        alls = "; ".join(self.prefix + m for m in self.members)
        return (
            f"Inductive {self.coqtype} := {cs}.\n"
            f"Definition {self.coqtype}_eqb (a b : {self.coqtype}) : bool :=\n"
            f"  match a, b with {eq} => true | _, _ => false end.\n"
            f"Definition all_{self.coqtype} : list {self.coqtype} := [{alls}].\n"
        )


def enum_members(classdef):
    out = []
    for st in classdef.body:
        if isinstance(st, ast.Assign) and len(st.targets) == 1 and isinstance(st.targets[0], ast.Name):
            if isinstance(st.value, ast.Constant) and isinstance(st.value.value, str):
                out.append((st.targets[0].id, st.value.value))
    return out


class FnTranslator:
    """
    enums: {python class name: (coq type, {member: constructor})}
    isinstance_preds: {(coq type, python class name): coq predicate}
    params: [(name, type)], types are coq type names, 'bool', 'option bool', 'option <enum>', 'text'
    """

    def __init__(self, enums, isinstance_preds=None, consts=None):
        self.enums = enums
        self.isinst = isinstance_preds or {}
        self.consts = consts or {}   # module-level names bound once to a literal tuple/list (loops over them are unrolled)
        self.fresh = 0

    def gensym(self, base="v"):
        self.fresh += 1
        return f"{base}_{self.fresh}"

    # ---------- expressions (CPS: k receives a pure coq term and its type) ----------
    def expr(self, e, env, k):
        if isinstance(e, ast.Name):
            if e.id not in env:
                raise Untranslatable(f"unknown name {e.id}")
            kind, ty = env[e.id]
            if kind == "param":
                return k(e.id, ty)
            v = self.gensym(e.id)
            return f"(match {e.id} with Some {v} => {k(v, ty)} | None => Exn UnboundLocal end)"
        if isinstance(e, ast.Attribute) and isinstance(e.value, ast.Name) and e.value.id in self.enums:
            ty, members = self.enums[e.value.id]
            if e.attr not in members:
                raise Untranslatable(f"unknown member {e.value.id}.{e.attr}")
            return k(members[e.attr], ty)
        if isinstance(e, ast.Constant):
            if e.value is True:
                return k("true", "bool")
            if e.value is False:
                return k("false", "bool")
            if e.value is None:
                return k("None", "none")
            if isinstance(e.value, int):
                return k(f"({e.value})%Z", "Z")
            raise Untranslatable(f"constant {e.value!r}")
        if isinstance(e, ast.UnaryOp) and isinstance(e.op, ast.Not):
            return self.expr(e.operand, env, lambda t, ty: k(f"(negb {self.as_bool(t, ty)})", "bool"))
        if isinstance(e, ast.BoolOp):
            op = "&&" if isinstance(e.op, ast.And) else "||"
            # Python short-circuits; operands here may raise only through int()/unbound locals, so
            # short-circuiting is kept exact by nesting `if`.
            def go(vals):
                if len(vals) == 1:
                    return self.expr(vals[0], env, lambda t, ty: k(self.as_bool(t, ty), "bool"))
                first, rest = vals[0], vals[1:]
                if isinstance(e.op, ast.And):
                    return self.expr(
                        first, env, lambda t, ty: f"(if {self.as_bool(t, ty)} then {go(rest)} else {k('false', 'bool')})"
                    )
                return self.expr(
                    first, env, lambda t, ty: f"(if {self.as_bool(t, ty)} then {k('true', 'bool')} else {go(rest)})"
                )

            if all(self.pure(v, env) for v in e.values):
                parts = []

                def collect(vals, acc):
                    if not vals:
                        return k("(" + f" {op} ".join(acc) + ")", "bool")
                    return self.expr(vals[0], env, lambda t, ty: collect(vals[1:], acc + [self.as_bool(t, ty)]))

                return collect(list(e.values), parts)
            return go(list(e.values))
        if isinstance(e, ast.Compare):
            return self.compare(e, env, k)
        if isinstance(e, ast.Call):
            f = e.func
            if isinstance(f, ast.Name) and f.id == "int" and len(e.args) == 1 and not e.keywords:
                n = self.gensym("n")
                return self.expr(
                    e.args[0],
                    env,
                    lambda t, ty: self.need(ty == "text", "int() of non-text")
                    or f"(match key_int {t} with Ok {n} => {k(n, 'Z')} | Exn e_ => Exn e_ end)",
                )
            if isinstance(f, ast.Name) and f.id == "isinstance" and len(e.args) == 2 and isinstance(e.args[1], ast.Name):
                cls = e.args[1].id

                def kk(t, ty):
                    if (ty, cls) not in self.isinst:
                        raise Untranslatable(f"isinstance({ty}, {cls})")
                    return k(f"({self.isinst[(ty, cls)]} {t})", "bool")

                return self.expr(e.args[0], env, kk)
            if (
                isinstance(f, ast.Attribute)
                and f.attr == "endswith"
                and len(e.args) == 1
                and isinstance(e.args[0], ast.Constant)
                and isinstance(e.args[0].value, str)
                and len(e.args[0].value) == 1
            ):
                c = ord(e.args[0].value)
                return self.expr(
                    f.value,
                    env,
                    lambda t, ty: self.need(ty == "text", "endswith of non-text") or k(f"(ends_with {c}%N {t})", "bool"),
                )
        raise Untranslatable(ast.dump(e))

    @staticmethod
    def need(cond, msg):
        if not cond:
            raise Untranslatable(msg)
        return None

    def pure(self, e, env):
        """expression cannot raise (no int(), no possibly-unbound local)"""
        for n in ast.walk(e):
            if isinstance(n, ast.Call) and isinstance(n.func, ast.Name) and n.func.id == "int":
                return False
            if isinstance(n, ast.Name) and n.id in env and env[n.id][0] == "local":
                return False
        return True

    def as_bool(self, t, ty):
        if ty == "bool":
            return t
        raise Untranslatable(f"truthiness of {ty}")

    def eq(self, a, ta, b, tb):
        if tb == "none":
            if ta.startswith("option "):
                return f"(match {a} with None => true | Some _ => false end)"
            raise Untranslatable(f"{ta} compared with None")
        if ta == "none":
            return self.eq(b, tb, a, ta)
        if ta.startswith("option ") and ta[7:] == tb:
            inner = tb
            return f"(match {a} with Some x_ => {self.eq('x_', inner, b, tb)} | None => false end)"
        if tb.startswith("option ") and tb[7:] == ta:
            return self.eq(b, tb, a, ta)
        if ta != tb:
            raise Untranslatable(f"comparison of {ta} with {tb}")
        if ta == "bool":
            return f"(Bool.eqb {a} {b})"
        if ta == "Z":
            return f"(Z.eqb {a} {b})"
        return f"({ta}_eqb {a} {b})"

    def compare(self, e, env, k):
        operands = [e.left] + list(e.comparators)
        ops = e.ops

        def go(i, terms):
            if i == len(operands):
                conj = []
                for j, op in enumerate(ops):
                    (a, ta), (b, tb) = terms[j], terms[j + 1]
                    if isinstance(op, (ast.Eq, ast.Is)):
                        conj.append(self.eq(a, ta, b, tb))
                    elif isinstance(op, (ast.NotEq, ast.IsNot)):
                        conj.append(f"(negb {self.eq(a, ta, b, tb)})")
                    elif isinstance(op, ast.LtE):
                        self.need(ta == "Z" and tb == "Z", "<= on non-int")
                        conj.append(f"(Z.leb {a} {b})")
                    elif isinstance(op, ast.Lt):
                        self.need(ta == "Z" and tb == "Z", "< on non-int")
                        conj.append(f"(Z.ltb {a} {b})")
                    else:
                        raise Untranslatable(ast.dump(op))
                return k("(" + " && ".join(conj) + ")", "bool")
            return self.expr(operands[i], env, lambda t, ty: go(i + 1, terms + [(t, ty)]))

        if len(ops) == 1 and isinstance(ops[0], (ast.In, ast.NotIn)) and isinstance(e.comparators[0], ast.Tuple):
            elts = e.comparators[0].elts

            def kin(a, ta):
                def each(j, acc):
                    if j == len(elts):
                        body = "(" + " || ".join(acc) + ")"
                        if isinstance(ops[0], ast.NotIn):
                            body = f"(negb {body})"
                        return k(body, "bool")
                    # Python: `x in (a, b)` is `x == a or x == b` (identity first, then ==)
                    return self.expr(elts[j], env, lambda b, tb: each(j + 1, acc + [self.eq(a, ta, b, tb)]))

                return each(0, [])

            return self.expr(e.left, env, kin)
        # chained comparisons evaluate each operand once, left to right; short-circuit matters only for effects,
        # and the only effectful operand (int()) is required to be pure-after-first here
        return go(0, [])

    # ---------- statements ----------
    def stmts(self, ss, env, rty):
        if not ss:
            return "Exn ReturnedNone"
        s, rest = ss[0], ss[1:]
        if isinstance(s, ast.Expr) and isinstance(s.value, ast.Constant) and isinstance(s.value.value, str):
            return self.stmts(rest, env, rty)
        if isinstance(s, ast.Pass):
            return self.stmts(rest, env, rty)
        if isinstance(s, ast.Return):
            if s.value is None:
                return "Exn ReturnedNone"

            def kret(t, ty):
                if ty != rty:
                    raise Untranslatable(f"return type {ty}, expected {rty}")
                return f"Ok {t}"

            return self.expr(s.value, env, kret)
        if isinstance(s, ast.Raise):
            exc = s.exc
            name = exc.func.id if isinstance(exc, ast.Call) and isinstance(exc.func, ast.Name) else getattr(exc, "id", None)
            if name not in EXC:
                raise Untranslatable(f"raise {ast.dump(exc)}")
            return f"Exn {EXC[name]}"
        if isinstance(s, ast.If):
            return self.expr(
                s.test,
                env,
                lambda t, ty: f"(if {self.as_bool(t, ty)}\n then {self.stmts(list(s.body) + rest, env, rty)}\n else {self.stmts(list(s.orelse) + rest, env, rty)})",
            )
        if isinstance(s, ast.AnnAssign) and isinstance(s.target, ast.Name) and s.value is not None:
            s = ast.Assign(targets=[s.target], value=s.value)
        if isinstance(s, ast.For):
            return self.stmts(self.unroll(s) + rest, env, rty)
        if isinstance(s, ast.Assign) and len(s.targets) == 1 and isinstance(s.targets[0], ast.Name) and s.targets[0].id not in env:
            # a local that is not declared up front: bound on this path from here on (the continuation `rest` is translated once per path,
            # so a read on a path without the assignment is an unknown name and fails closed)
            name = s.targets[0].id

            def knew(t, ty):
                env2 = dict(env)
                env2[name] = ("param", ty)
                return f"(let {name} := {t} in {self.stmts(rest, env2, rty)})"

            return self.expr(s.value, env, knew)
        if isinstance(s, ast.Assign) and len(s.targets) == 1 and isinstance(s.targets[0], ast.Name):
            name = s.targets[0].id
            kind, ty0 = env[name]

            def kas(t, ty):
                if ty != ty0:
                    raise Untranslatable(f"assignment of {ty} to {name}:{ty0}")
                if kind == "param":
                    return f"(let {name} := {t} in {self.stmts(rest, env, rty)})"
                return f"(let {name} := Some {t} in {self.stmts(rest, env, rty)})"

            return self.expr(s.value, env, kas)
        raise Untranslatable(ast.dump(s))

    def unroll(self, loop):
        """for <names> in <module constant>: body  ->  the body once per element, the loop variables replaced by the element's literals
        (no break/continue/else; the elements are literal constants or enum members)"""
        import copy

        if loop.orelse or any(isinstance(x, (ast.Break, ast.Continue)) for x in ast.walk(loop)):
            raise Untranslatable("for loop with break/continue/else")
        if not (isinstance(loop.iter, ast.Name) and loop.iter.id in self.consts):
            raise Untranslatable("for loop over something else than a module-level literal: " + ast.unparse(loop.iter))
        seq = self.consts[loop.iter.id]
        if isinstance(loop.target, ast.Name):
            names = [loop.target.id]
        elif isinstance(loop.target, ast.Tuple) and all(isinstance(x, ast.Name) for x in loop.target.elts):
            names = [x.id for x in loop.target.elts]
        else:
            raise Untranslatable("for loop target " + ast.unparse(loop.target))
        if any(isinstance(x, ast.Name) and isinstance(x.ctx, ast.Store) and x.id in names for b in loop.body for x in ast.walk(b)):
            raise Untranslatable("loop variable assigned in the loop body")
        out = []
        for el in seq.elts:
            vals = [el] if isinstance(loop.target, ast.Name) else (list(el.elts) if isinstance(el, ast.Tuple) else None)
            if vals is None or len(vals) != len(names):
                raise Untranslatable("element of the loop constant does not match the loop target: " + ast.unparse(el))
            for v in vals:
                if not (isinstance(v, ast.Constant) or (isinstance(v, ast.Attribute) and isinstance(v.value, ast.Name) and v.value.id in self.enums)):
                    raise Untranslatable("element of the loop constant is not a literal: " + ast.unparse(v))
            sub = dict(zip(names, vals))

            class Sub(ast.NodeTransformer):
                def visit_Name(self, node):  # noqa: N802
                    return copy.deepcopy(sub[node.id]) if node.id in sub else node

            out += [Sub().visit(copy.deepcopy(b)) for b in loop.body]
        return out

    def function(self, fn, coqname, params, locals_, rty):
        """params/locals_: [(name, type)]"""
        got = [a.arg for a in fn.args.args]
        if got != [p for p, _ in params] or fn.args.vararg or fn.args.kwarg or fn.args.kwonlyargs:
            raise Untranslatable(f"signature of {fn.name} is {got}")
        if fn.decorator_list:
            raise Untranslatable(f"{fn.name} has decorators")
        env = {p: ("param", t) for p, t in params}
        env.update({l: ("local", t) for l, t in locals_})
        # every assigned name must be declared
        body = self.stmts(list(fn.body), env, rty)
        for l, t in locals_:
            body = f"(let {l} : option {t} := None in {body})"
        ps = " ".join(f"({p} : {t})" for p, t in params)
        return f"Definition {coqname} {ps} : result {rty} :=\n {body}.\n"
