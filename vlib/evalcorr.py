"""
Shared correspondence (tie C) and oracles for C04-C08: the model's eval_rc / rc_evaluation / fc_evaluation
against evaluate_requirement_constraint_tree / requirement_constraint_evaluation / format_constraint_evaluation.
"""
import itertools

from vlib import exprs, runner
from vlib.exprs import gcer, to_gallina, to_lark
from vlib.runner import gbool, gopt, gtext

RC, HINTS, FCS = ["1", "2"], ["501", "502"], ["901", "902"]
STATES = ("FULFILLED", "UNFULFILLED", "UNKNOWN")
IMPORTS = "From Ahb Require Import Model.Prelude Model.Grammar Gen.Gen_logic Model.EvalRC Model.EvalFC Corr.Eval."


def default_hints(keys):
    return {k: "H" + k for k in keys}


def corpus(ctx, max_exh=3, n_random=300, max_leaves=12):
    """[(tree, rc assignment)] : exhaustive small scope first, then random in-domain trees"""
    keys = RC + HINTS + FCS
    out = regression_cases()
    for n in range(1, max_exh + 1):
        for t in exprs.trees(n, keys):
            rk = sorted({k for k in exprs.leaves(t) if exprs.kind(k) == "rc"})
            for rho in exprs.assignments(rk, STATES):
                out.append((t, rho))
    # compositions that are NEUTRAL as a whole (hints and format constraints only) as operands of a further composition
    L = lambda k: ("L", k)
    neutral = [("and", L("501"), L("502")), ("or", L("501"), L("502")), ("xor", L("901"), L("902")), ("then", L("501"), L("901")), ("and", L("501"), L("901"))]
    for op in ("and", "or", "xor"):
        for a in neutral:
            for b in neutral:
                out.append(((op, a, b), {}))
            out.append(((op, a, L("1")), {"1": "FULFILLED"}))
            out.append(((op, L("2"), a), {"2": "UNFULFILLED"}))
    rc3, h3, f3 = RC + ["3", "2001"], HINTS + ["900"], FCS + ["999"]
    for _ in range(n_random):
        n = ctx.rng.randint(4, max_leaves)
        t = exprs.random_dom_tree(ctx.rng, n, rc3, h3, f3)
        if ctx.rng.random() < 0.65:   # mostly valid deep trees: plain random ones are invalid more often than not and exercise the error path only
            for _try in range(40):
                if exprs.dom(t) and exprs.valid(t):
                    break
                t = exprs.random_dom_tree(ctx.rng, n, rc3, h3, f3)
        rk = sorted({k for k in exprs.leaves(t) if exprs.kind(k) == "rc"})
        for _ in range(3):
            out.append((t, {k: ctx.rng.choice(STATES) for k in rk}))
    return out


def regression_cases():
    """corpus/eval.json: failing inputs of past (seeded) defects, as (tree, rc assignment); they run first"""
    import json
    import os

    from vlib import impl  # noqa: F401
    from ahbicht.expressions.condition_expression_parser import parse_condition_expression_to_tree

    path = os.path.join(os.path.dirname(os.path.dirname(os.path.abspath(__file__))), "corpus", "eval.json")
    if not os.path.exists(path):
        return []
    out = []
    for e in json.load(open(path, encoding="utf-8")):
        try:
            t = exprs.from_lark(parse_condition_expression_to_tree(e["expression"]))
        except BaseException:  # pylint: disable=broad-except
            continue   # a corpus entry the current parser rejects is not an evaluation case
        if t is None or any(exprs.kind(k) == "bad" for k in exprs.leaves(t)):
            continue
        rk = {k for k in exprs.leaves(t) if exprs.kind(k) == "rc"}
        rho = {k: v for k, v in e.get("rc", {}).items() if k in rk and v in STATES}
        if set(rho) == rk:
            out.append((t, rho))
    return out


def node_obs(res):
    from ahbicht.models.condition_nodes import EvaluatedComposition, Hint, RequirementConstraint, UnevaluatedFormatConstraint

    tag, v = res
    if tag == "exn":
        return f"(Exn {v})"
    k = {RequirementConstraint: "KRc", Hint: "KHint", UnevaluatedFormatConstraint: "KFc", EvaluatedComposition: "KEc"}.get(type(v))
    if k is None:
        return "(Exn OtherErr)"
    return (f"(Ok {{| no_k := {k}; no_st := C_{v.conditions_fulfilled.name}; no_h := {gopt(getattr(v, 'hint', None), gtext)}; "
            f"no_fcx := {gopt(getattr(v, 'format_constraints_expression', None), gtext)} |}})")


def rc_obs(res):
    tag, v = res
    if tag == "exn":
        return f"(Exn {v})"
    return (f"(Ok {{| ob_f := {gopt(v.requirement_constraints_fulfilled, gbool)}; ob_c := {gopt(v.requirement_is_conditional, gbool)}; "
            f"ob_fcx := {gopt(v.format_constraints_expression, gtext)}; ob_h := {gopt(v.hints, gtext)} |}})")


def fc_obs(res):
    tag, v = res
    if tag == "exn":
        return f"(Exn {v})"
    return f"(Ok ({gbool(v.format_constraints_fulfilled)}, {gopt(v.error_message, gtext)}))"


def run_eval_correspondence(ctx, cases, level="node", fc_assign=None, tag="C04"):
    """
    cases: [(tree, rho)] ; level: node | rc | part.  Returns list of (index, case, observation) mismatching.
    """
    from vlib import evalimpl

    terms, meta, raws = [], [], []
    last_tree = [None, None]
    for t, rho in cases:
        hints = default_hints([k for k in exprs.leaves(t) if exprs.kind(k) == "hint"])
        fkeys = [k for k in exprs.leaves(t) if exprs.kind(k) == "fc"]
        fc = fc_assign(t, rho) if fc_assign else {k: (True, None) for k in fkeys}
        evalimpl.set_cer(rc=rho, hints=hints, fc=fc)
        # the SAME parsed tree object is evaluated under successive assignments (evaluation must not consume it)
        if last_tree[0] is not t:
            last_tree[0], last_tree[1] = t, to_lark(t)
        lt = last_tree[1]
        ce = gcer(rho, hints, fc)
        if level == "node":
            raw = evalimpl.outcome(lambda: evalimpl.node_evaluation(lt))
            o = node_obs(raw)
        elif level == "rc":
            raw = evalimpl.outcome(lambda: evalimpl.rc_evaluation(lt))
            o = rc_obs(raw)
        else:
            def part():
                r = evalimpl.rc_evaluation(lt)
                return evalimpl.fc_evaluation(r.format_constraints_expression)

            raw = evalimpl.outcome(part)
            o = fc_obs(raw)
        terms.append(f"({ce}, {to_gallina(t)}, {o})")
        meta.append((t, rho, fc, o))
        raws.append(raw)
    check = {"node": "node_check", "rc": "rc_check", "part": "part_check"}[level]
    ctype = {"node": "node_case", "rc": "rc_case", "part": "part_case"}[level]
    n, bad, err = runner.run_case_files(f"{tag}_{level}", IMPORTS, ctype, check, terms)
    if err:
        ctx.broke(f"correspondence ({level}) could not be evaluated in Coq", err)
    ctx.notes.setdefault("correspondence", {})[level] = {"cases": n, "mismatches": len(bad)}
    return n, [(i, meta[i]) for i in bad], raws


def model_eval(ctx, level, metas, tag):
    """re-evaluate mismatching cases in the model to show both observations in the replay"""
    fn = {"node": "(fun c => let '(ce, e, _) := c in rmap node_obs_of (do rho <- build_env ce (keys_of e) ;; eval_rc rho e))",
          "rc": "(fun c => let '(ce, e, _) := c in rmap rc_obs_of (rc_evaluation ce e))"}.get(level)
    return None


def report_mismatches(ctx, level, bad, oracle_confirms):
    """a mismatch is a broken correspondence; the oracle decides whether a failing input exists"""
    for i, (t, rho, fc, o) in bad[:20]:
        desc = {"expression": exprs.show(t), "rc": rho, "fc": {k: list(v) for k, v in fc.items()}, "implementation_observed": o}
        ctx.broke(f"correspondence mismatch ({level}): model and ahbicht differ", str(desc))
        if oracle_confirms:
            oracle_confirms(t, rho, fc, desc)


def eval_node_outcome(t, rho, extra_hints=()):
    """('ok', state name) | ('exn', class) for the tree under the assignment (implementation)"""
    from vlib import evalimpl

    hints = default_hints([k for k in exprs.leaves(t) if exprs.kind(k) == "hint"])
    evalimpl.set_cer(rc=rho, hints=hints, fc={})
    tag, v = evalimpl.outcome(lambda: evalimpl.node_evaluation(to_lark(t)))
    return (tag, v.conditions_fulfilled.name) if tag == "ok" else (tag, v)


def eval_rc_outcome(t, rho):
    """('ok', (requirement_constraints_fulfilled, requirement_is_conditional)) | ('exn', class): the outcome as requirement_constraint_evaluation reports it"""
    from vlib import evalimpl

    hints = default_hints([k for k in exprs.leaves(t) if exprs.kind(k) == "hint"])
    evalimpl.set_cer(rc=rho, hints=hints, fc={k: (True, None) for k in exprs.leaves(t) if exprs.kind(k) == "fc"})
    tag, v = evalimpl.outcome(lambda: evalimpl.rc_evaluation(to_lark(t)))
    return (tag, (v.requirement_constraints_fulfilled, v.requirement_is_conditional)) if tag == "ok" else (tag, v)


def eval_node_outcome_on(lark_tree, t, rho):
    """as eval_node_outcome, on a lark tree object the caller keeps and evaluates again (parse once, evaluate under many assignments)"""
    from vlib import evalimpl

    hints = default_hints([k for k in exprs.leaves(t) if exprs.kind(k) == "hint"])
    evalimpl.set_cer(rc=rho, hints=hints, fc={})
    tag, v = evalimpl.outcome(lambda: evalimpl.node_evaluation(lark_tree))
    return (tag, v.conditions_fulfilled.name) if tag == "ok" else (tag, v)


def replay_eval(path):
    import json

    from vlib import evalimpl

    r = json.load(open(path, encoding="utf-8"))
    print("replay of", path)
    print(" expected:", r.get("expected"), "| observed when recorded:", r.get("observed"))
    inp = r.get("input") or {}
    exs = [inp[k] for k in ("expression", "transformed") if k in inp]
    for ex in exs:
        rho = inp.get("rc", {})
        keys = set(__import__("re").findall(r"\[(\d+)\]", ex))
        evalimpl.set_cer(rc=rho, hints=default_hints([k for k in keys if exprs.kind(k) == "hint"]),
                         fc={k: (tuple(v) if isinstance(v, (list, tuple)) else (bool(v), None if v else f"{k} muss erfüllt sein")) for k, v in inp.get("fc", {}).items()}
                         or {k: (True, None) for k in keys if exprs.kind(k) == "fc"})
        print(" now:", ex, rho, "->", evalimpl.outcome(lambda: evalimpl.rc_evaluation(ex)))
    return 0
