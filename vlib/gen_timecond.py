"""Gen_timecond: TimeConditionTransformer.time_condition (if-chain on string constants) -- tie T."""
import ast

from vlib.py2coq import Untranslatable
from vlib.translate import HEADER, find_class, find_func, gtext, parse


_PREC = {"or_composition": (0, "O"), "xor_composition": (1, "X"), "and_composition": (2, "U"), "then_also_composition": (3, "")}


def _print_tree(t, level=0):
    """a text that parses back to the lark tree t: brackets only where the documented precedence needs them (an operand that binds
    no tighter than its parent is bracketed, so the tree is determined)"""
    from lark import Token, Tree

    if not isinstance(t, Tree):
        raise Untranslatable(f"unexpected node {t!r}")
    kids = t.children
    if t.data in ("condition", "time_condition") and len(kids) == 1 and isinstance(kids[0], Token):
        return f"[{kids[0]}]"
    if t.data == "package" and kids and all(isinstance(k, Token) for k in kids):
        return "[" + " ".join(str(k) for k in kids) + "]"
    if t.data not in _PREC or len(kids) != 2:
        raise Untranslatable(f"unexpected tree {t.data}")
    prec, op = _PREC[t.data]
    text = _print_tree(kids[0], prec + 1) + op + _print_tree(kids[1], prec + 1)
    return "(" + text + ")" if prec < level else text


def _entries_by_execution(why):
    """fallback when the source is outside the syntactic subset: run the loaded callback on every time condition key the grammar can produce
    (a finite set) and read the table off the results"""
    from lark import Token, Tree

    from vlib import impl  # noqa: F401
    from vlib.translate import TABULATED, _load_parsers
    import ahbicht.content_evaluation  # noqa: F401  (import order: avoids the circular import of the expressions package)
    from ahbicht.expressions.expression_resolver import TimeConditionTransformer

    cp, _ = _load_parsers()
    entries = []
    for n in range(0, 10):
        key = f"UB{n}"
        try:
            cp.parse(f"[{key}]")
        except Exception:  # pylint: disable=broad-except
            continue   # not a time condition key of the grammar
        try:
            r = TimeConditionTransformer().time_condition([Token("TIME_CONDITION_KEY", key)])
        except NotImplementedError:
            continue
        if isinstance(r, Tree) and r.data == "condition" and len(r.children) == 1 and isinstance(r.children[0], Token) and r.children[0].type == "CONDITION_KEY":
            entries.append((key, "key", str(r.children[0])))
        else:
            src = _print_tree(r)
            if cp.parse(src) != r:
                raise Untranslatable(f"time_condition({key}): the result cannot be written back as an expression")
            entries.append((key, "expr", src))
    TABULATED.append(("time_condition_expansion", why))
    return entries


def generate():
    try:
        return _generate(None)
    except Untranslatable as why:
        return _generate(_entries_by_execution(str(why)))


def _generate(forced_entries):
    mod, path = parse("expressions/expression_resolver.py")
    if forced_entries is not None:
        return _emit(path, forced_entries, tabulated=True)
    fn = find_func(find_class(mod, "TimeConditionTransformer"), "time_condition")
    body = [s for s in fn.body if not (isinstance(s, ast.Expr) and isinstance(s.value, ast.Constant))]
    if not (isinstance(body[0], ast.Assign) and isinstance(body[0].targets[0], ast.Name)):
        raise Untranslatable("time_condition: first statement is not the key assignment")
    var = body[0].targets[0].id
    v = body[0].value  # tokens[0].value
    if not (isinstance(v, ast.Attribute) and v.attr == "value" and isinstance(v.value, ast.Subscript)):
        raise Untranslatable("time_condition: key is not tokens[0].value")
    entries = []
    for st in body[1:]:
        if isinstance(st, ast.Raise):
            if not (isinstance(st.exc, ast.Call) and getattr(st.exc.func, "id", None) == "NotImplementedError"):
                raise Untranslatable("time_condition: unexpected raise")
            continue
        if not (isinstance(st, ast.If) and not st.orelse and isinstance(st.test, ast.Compare) and len(st.test.ops) == 1
                and isinstance(st.test.ops[0], ast.Eq) and isinstance(st.test.left, ast.Name) and st.test.left.id == var
                and isinstance(st.test.comparators[0], ast.Constant)):
            raise Untranslatable(f"time_condition: unexpected statement {ast.dump(st)[:200]}")
        key = st.test.comparators[0].value
        rets = [s for s in st.body if isinstance(s, ast.Return)]
        if len(rets) != 1:
            raise Untranslatable("time_condition: branch without a single return")
        r = rets[0].value
        # Tree("condition", [Token("CONDITION_KEY", "932")])
        if (isinstance(r, ast.Call) and getattr(r.func, "id", None) == "Tree" and len(r.args) == 2 and isinstance(r.args[0], ast.Constant)
                and r.args[0].value == "condition" and isinstance(r.args[1], ast.List) and len(r.args[1].elts) == 1):
            tok = r.args[1].elts[0]
            if not (isinstance(tok, ast.Call) and getattr(tok.func, "id", None) == "Token" and [getattr(a, "value", None) for a in tok.args][0] == "CONDITION_KEY"):
                raise Untranslatable("time_condition: unexpected token")
            entries.append((key, "key", tok.args[1].value))
        elif isinstance(r, ast.Call) and getattr(r.func, "id", None) == "parse_condition_expression_to_tree" and len(r.args) == 1 and isinstance(r.args[0], ast.Constant):
            entries.append((key, "expr", r.args[0].value))
        else:
            raise Untranslatable(f"time_condition: unexpected return {ast.dump(r)[:200]}")
    return _emit(path, entries, tabulated=False)


def _emit(path, entries, tabulated):
    # trees of the expression-valued expansions, parsed by ahbicht itself at generation time
    from vlib import strings
    from vlib.translate import _load_parsers

    cp, _ = _load_parsers()
    out = [HEADER.format(src=path), "From Ahb Require Import Model.Grammar Gen.Gen_grammar Model.Lex.\n"]
    if tabulated:
        out.append("(* time_condition is outside the syntactic subset: the table below was read off the loaded callback, executed on every time\n"
                   "   condition key of the grammar; expression-valued expansions are written back as text with the brackets the precedence needs *)")
    out.append("Inductive tc_expansion := TcKey (k : text) | TcExpr (src : text) (tree : expr).")
    rows = []
    for key, kind, val in entries:
        if kind == "key":
            rows.append(f"({gtext(key)}, TcKey {gtext(val)})")
        else:
            rows.append(f"({gtext(key)}, TcExpr {gtext(val)} {strings.lark_to_gallina(cp.parse(val))})")
    out.append("Definition time_condition_expansion : list (text * tc_expansion) :=\n  [" + ";\n   ".join(rows) + "].")
    return "\n".join(out) + "\n"
