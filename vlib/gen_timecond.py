"""Gen_timecond: TimeConditionTransformer.time_condition (if-chain on string constants) -- tie T."""
import ast

from vlib.py2coq import Untranslatable
from vlib.translate import HEADER, find_class, find_func, gtext, parse


def generate():
    mod, path = parse("expressions/expression_resolver.py")
    fn = find_func(find_class(mod, "TimeConditionTransformer"), "time_condition")
    body = [s for s in fn.body if not (isinstance(s, ast.Expr) and isinstance(s.value, ast.Constant))]
    if not (isinstance(body[0], ast.Assign) and isinstance(body[0].targets[0], ast.Name)):
        raise Untranslatable("time_condition: first statement is not the key assignment")
    var = body[0].targets[0].id
    v = body[0].value  # tokens[0].value
    if not (isinstance(v, ast.Attribute) and v.attr == "value" and isinstance(v.value, ast.Subscript)):
        raise Untranslatable("time_condition: key is not tokens[0].value")
    entries = []
    for st in body[1:]:
        if isinstance(st, ast.Raise):
            if not (isinstance(st.exc, ast.Call) and getattr(st.exc.func, "id", None) == "NotImplementedError"):
                raise Untranslatable("time_condition: unexpected raise")
            continue
        if not (isinstance(st, ast.If) and not st.orelse and isinstance(st.test, ast.Compare) and len(st.test.ops) == 1
                and isinstance(st.test.ops[0], ast.Eq) and isinstance(st.test.left, ast.Name) and st.test.left.id == var
                and isinstance(st.test.comparators[0], ast.Constant)):
            raise Untranslatable(f"time_condition: unexpected statement {ast.dump(st)[:200]}")
        key = st.test.comparators[0].value
        rets = [s for s in st.body if isinstance(s, ast.Return)]
        if len(rets) != 1:
            raise Untranslatable("time_condition: branch without a single return")
        r = rets[0].value
        # Tree("condition", [Token("CONDITION_KEY", "932")])
        if (isinstance(r, ast.Call) and getattr(r.func, "id", None) == "Tree" and len(r.args) == 2 and isinstance(r.args[0], ast.Constant)
                and r.args[0].value == "condition" and isinstance(r.args[1], ast.List) and len(r.args[1].elts) == 1):
            tok = r.args[1].elts[0]
            if not (isinstance(tok, ast.Call) and getattr(tok.func, "id", None) == "Token" and [getattr(a, "value", None) for a in tok.args][0] == "CONDITION_KEY"):
                raise Untranslatable("time_condition: unexpected token")
            entries.append((key, "key", tok.args[1].value))
        elif isinstance(r, ast.Call) and getattr(r.func, "id", None) == "parse_condition_expression_to_tree" and len(r.args) == 1 and isinstance(r.args[0], ast.Constant):
            entries.append((key, "expr", r.args[0].value))
        else:
            raise Untranslatable(f"time_condition: unexpected return {ast.dump(r)[:200]}")
    # trees of the expression-valued expansions, parsed by ahbicht itself at generation time
    from vlib import strings
    from vlib.translate import _load_parsers

    cp, _ = _load_parsers()
    out = [HEADER.format(src=path), "From Ahb Require Import Model.Grammar Gen.Gen_grammar Model.Lex.\n"]
    out.append("Inductive tc_expansion := TcKey (k : text) | TcExpr (src : text) (tree : expr).")
    rows = []
    for key, kind, val in entries:
        if kind == "key":
            rows.append(f"({gtext(key)}, TcKey {gtext(val)})")
        else:
            rows.append(f"({gtext(key)}, TcExpr {gtext(val)} {strings.lark_to_gallina(cp.parse(val))})")
    out.append("Definition time_condition_expansion : list (text * tc_expansion) :=\n  [" + ";\n   ".join(rows) + "].")
    return "\n".join(out) + "\n"
