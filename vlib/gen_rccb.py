"""Gen_rccb: the four callbacks of RequirementConstraintTransformer as a TABLE read off the loaded code (tie T for Model/EvalRC.v `compose`).

and_composition, or_composition, xor_composition and then_also_composition are executed on every pair of input nodes from a finite universe that
covers every case distinction the callbacks make: requirement constraints in the four states, a hint, an unevaluated format constraint, and evaluated
compositions in the four states with / without a hint text and without / with a single-key / with a compound collected expression. The rows (operands
as model nodes, outcome as the observation type of the correspondence) are compared with the hand-written model by vm_compute in Proofs/C04_gen.v: a
change of a callback changes a row and that file no longer compiles. The texts are concrete here; that hint texts and messages are treated
parametrically is the content of Gen_fcmsg / Proofs/C08_gen.v."""
from vlib.py2coq import Untranslatable
from vlib.translate import HEADER, gtext


def generate():
    from vlib import impl  # noqa: F401
    import ahbicht.content_evaluation  # noqa: F401
    from ahbicht.expressions.expression_builder import FormatConstraintExpressionBuilder
    from ahbicht.expressions.requirement_constraint_expression_evaluation import RequirementConstraintTransformer
    from ahbicht.models.condition_nodes import ConditionFulfilledValue as V
    from ahbicht.models.condition_nodes import EvaluatedComposition, Hint, RequirementConstraint, UnevaluatedFormatConstraint

    def gopt(x, f):
        return "None" if x is None else f"(Some {f(x)})"

    compound = FormatConstraintExpressionBuilder(UnevaluatedFormatConstraint(condition_key="903")).land(UnevaluatedFormatConstraint(condition_key="904")).get_expression()
    if compound != "[903] U [904]":
        raise Untranslatable(f"the expression builder writes {compound!r} for two keys connected with 'and'")
    FCX = [(None, "None"), ("[903]", f"(Some [FK {gtext('903')}])"), (compound, f"(Some [FK {gtext('903')}; FOp LU; FK {gtext('904')}])")]

    def universe(side):
        hint_text, rc_key, hint_key, fc_key = [("h1", "1", "501", "901"), ("h2", "2", "502", "902")][side]
        out = []
        for st in V:
            out.append((RequirementConstraint(condition_key=rc_key, conditions_fulfilled=st),
                        f"{{| nk := KRc; st := C_{st.name}; nkey := {gtext(rc_key)}; nhint := None; nfcx := None |}}"))
        out.append((Hint(condition_key=hint_key, hint=hint_text),
                    f"{{| nk := KHint; st := C_NEUTRAL; nkey := {gtext(hint_key)}; nhint := Some {gtext(hint_text)}; nfcx := None |}}"))
        out.append((UnevaluatedFormatConstraint(condition_key=fc_key),
                    f"{{| nk := KFc; st := C_NEUTRAL; nkey := {gtext(fc_key)}; nhint := None; nfcx := None |}}"))
        for st in V:
            for h in (None, hint_text):
                for fx, gfx in FCX:
                    out.append((EvaluatedComposition(conditions_fulfilled=st, hint=h, format_constraints_expression=fx),
                                f"{{| nk := KEc; st := C_{st.name}; nkey := []; nhint := {gopt(h, gtext)}; nfcx := {gfx} |}}"))
        return out

    def obs(fn):
        try:
            v = fn()
        except BaseException as e:  # pylint: disable=broad-except
            if isinstance(e, (KeyboardInterrupt, SystemExit, MemoryError)):
                raise
            from vlib import impl

            return f"(Exn {impl.exc_class(e)})"
        k = {RequirementConstraint: "KRc", Hint: "KHint", UnevaluatedFormatConstraint: "KFc", EvaluatedComposition: "KEc"}.get(type(v))
        if k is None:
            return "(Exn OtherErr)"
        return (f"(Ok {{| no_k := {k}; no_st := C_{v.conditions_fulfilled.name}; no_h := {gopt(getattr(v, 'hint', None), gtext)}; "
                f"no_fcx := {gopt(getattr(v, 'format_constraints_expression', None), gtext)} |}})")

    import copy

    rows = []
    for cop, cb in (("BAnd", "and_composition"), ("BOr", "or_composition"), ("BXor", "xor_composition"), ("BThen", "then_also_composition")):
        for l, gl in universe(0):
            for r, gr in universe(1):
                tr = RequirementConstraintTransformer({})
                l2, r2 = copy.deepcopy(l), copy.deepcopy(r)
                rows.append(f"  ({cop}, {gl}, {gr}, {obs(lambda: getattr(tr, cb)(l2, r2))})")
    return (HEADER.format(src="expressions/requirement_constraint_expression_evaluation.py (RequirementConstraintTransformer callbacks, executed)")
            + "From Ahb Require Import Model.Prelude Model.Grammar Gen.Gen_logic Model.EvalRC Corr.Eval.\n"
            "Definition cb_rows : list (binop * node * node * result node_obs) := [\n" + ";\n".join(rows) + "\n].\n")
