"""
Regression corpus: the failing inputs the checks reported for the seeded changes (seeded/*/result.json -> replay files), stored by input
family under /verif/corpus/. The checks of the eval family (C04-C07), of C02 and of C10 run these inputs first on every run.
usage: /venv/bin/python -m vlib.corpus_harvest
"""
import json
import os
import sys

ROOT = os.path.dirname(os.path.dirname(os.path.abspath(__file__)))
CORPUS = os.path.join(ROOT, "corpus")


def load(name):
    p = os.path.join(CORPUS, name)
    return json.load(open(p, encoding="utf-8")) if os.path.exists(p) else []


def main():
    ev, strs, res = load("eval.json"), load("strings.json"), load("resolve.json")
    seen_ev = {json.dumps(x, sort_keys=True) for x in ev}
    seen_res = {json.dumps(x, sort_keys=True) for x in res}
    for d in sorted(os.listdir(os.path.join(ROOT, "seeded"))):
        rj = os.path.join(ROOT, "seeded", d, "result.json")
        if not os.path.exists(rj):
            continue
        r = json.load(open(rj))
        for v in r["fired"].get(r["property"], {}).get("violations", []):
            if "no-failing-input-found" in v:
                continue
            p = v.split("replay=")[1].split()[0]
            if not os.path.exists(p):
                continue
            j = json.load(open(p, encoding="utf-8"))
            inp, prop = j.get("input"), j.get("property")
            if not isinstance(inp, dict):
                continue
            if prop in ("C04", "C05", "C06", "C07") and "expression" in inp:
                for key in ("expression", "transformed"):
                    if isinstance(inp.get(key), str):
                        e = {"expression": inp[key], "rc": inp.get("rc", {}), "from": d}
                        k = json.dumps({x: e[x] for x in ("expression", "rc")}, sort_keys=True)
                        if k not in seen_ev:
                            seen_ev.add(k)
                            ev.append(e)
            if prop in ("C01", "C02"):
                s = inp.get("string", inp.get("expression"))
                if isinstance(s, str) and s not in strs:
                    strs.append(s)
            if prop == "C10" and "expression" in inp:
                e = {k: inp[k] for k in ("expression", "packages", "resolve_packages", "replace_time_conditions") if k in inp}
                k = json.dumps(e, sort_keys=True)
                if k not in seen_res:
                    seen_res.add(k)
                    res.append(e)
    os.makedirs(CORPUS, exist_ok=True)
    for name, data in (("eval.json", ev), ("strings.json", strs), ("resolve.json", res)):
        with open(os.path.join(CORPUS, name), "w", encoding="utf-8") as f:
            json.dump(data, f, indent=1, ensure_ascii=False)
        print(name, len(data))
    return 0


if __name__ == "__main__":
    sys.exit(main())
