"""python -m vlib.regen : regenerate coq/Gen from /repo and report"""
import sys

from vlib import translate

if __name__ == "__main__":
    st = translate.regenerate()
    for k, v in st.items():
        print(k, "ok" if v is None else "FAILED: " + v)
    sys.exit(1 if any(st.values()) else 0)
