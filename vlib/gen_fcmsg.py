"""Gen_fcmsg: the message / hint builders as TABLES read off the loaded code (tie T for Model/EvalFC.v fc_compose and Model/EvalRC.v hb_*).

FormatConstraintTransformer.and_/or_/xor_composition and HintExpressionBuilder.land/lor/xor are functions of two truth values and two optional
texts which they only copy and concatenate. They are executed on every combination of truth values and message modes with SYMBOLIC messages (marker
strings that cannot occur in a literal of the source); the result is split at the markers into literal pieces and the two symbols. The generated rows
are compared with the hand-written model for ALL texts in Proofs/C08_gen.v (one `reflexivity` per row), so a change of a builder breaks a proof
obligation and not only the correspondence. Assumption recorded in DESIGN.md: the builders treat the messages parametrically (they do not inspect
their content beyond None / empty); the correspondence with random messages checks that on every run."""
import re

from vlib.translate import HEADER, gtext

A, B = "\x02A\x03", "\x02B\x03"


def _pieces(s):
    if s is None:
        return "None"
    out = []
    for part in re.split("(\x02[AB]\x03)", s):
        if part == A:
            out.append("PA")
        elif part == B:
            out.append("PB")
        elif part:
            if "\x02" in part or "\x03" in part:
                raise ValueError("a builder took a symbolic message apart")
            out.append(f"PLit {gtext(part)}")
    return "Some [" + "; ".join(out) + "]"


def _exn(e):
    from vlib import impl

    return f"Exn {impl.exc_class(e)}"


def generate():
    from vlib import impl  # noqa: F401
    import ahbicht.content_evaluation  # noqa: F401
    from ahbicht.expressions.expression_builder import HintExpressionBuilder
    from ahbicht.expressions.format_constraint_expression_evaluation import FormatConstraintTransformer
    from ahbicht.models.condition_nodes import EvaluatedFormatConstraint as E

    tr = FormatConstraintTransformer({})
    ops = [("BAnd", "and_composition", "land"), ("BOr", "or_composition", "lor"), ("BXor", "xor_composition", "xor")]
    fc_rows = []
    for cop, cb, _ in ops:
        for lf in (True, False):
            for lm in (0, 1):
                for rf in (True, False):
                    for rm in (0, 1, 2):
                        l = E(format_constraint_fulfilled=lf, error_message=[None, A][lm])
                        r = E(format_constraint_fulfilled=rf, error_message=[None, B, A][rm])
                        try:
                            v = getattr(tr, cb)(l, r)
                            if not isinstance(v, E) or not isinstance(v.format_constraint_fulfilled, bool):
                                raise TypeError(f"{cb} returned {v!r}")
                            res = f"Ok ({str(v.format_constraint_fulfilled).lower()}, {_pieces(v.error_message)})"
                        except Exception as e:  # pylint: disable=broad-except
                            res = _exn(e)
                        fc_rows.append(f"  ({cop}, ({str(lf).lower()}, {lm}), ({str(rf).lower()}, {rm}), {res})")
    hint_rows = []
    for cop, _, meth in ops:
        for sm in (0, 1, 2):
            for om in (0, 1, 2):
                s = [None, "", A][sm]
                o = [None, "", B][om]
                try:
                    v = getattr(HintExpressionBuilder(s), meth)(o).get_expression()
                    if v is not None and not isinstance(v, str):
                        raise TypeError(f"{meth} returned {v!r}")
                    res = f"Ok ({_pieces(v)})"
                except Exception as e:  # pylint: disable=broad-except
                    res = _exn(e)
                hint_rows.append(f"  ({cop}, {sm}, {om}, {res})")
    return (HEADER.format(src="expressions/format_constraint_expression_evaluation.py, expressions/expression_builder.py (executed)") + "From Ahb Require Import Model.Prelude Model.Grammar.\n"
            "(* FormatConstraintTransformer.and_/or_/xor_composition and HintExpressionBuilder.land/lor/xor, executed on symbolic messages *)\n"
            "Inductive piece := PLit (t : text) | PA | PB.\n"
            "(* operator, left (fulfilled, message: 0 none / 1 the text a), right (fulfilled, message: 0 none / 1 the text b / 2 the text a again), result *)\n"
            "Definition fc_rows : list (binop * (bool * nat) * (bool * nat) * result (bool * option (list piece))) := [\n" + ";\n".join(fc_rows) + "\n].\n"
            "(* operator, own hint (0 none / 1 empty / 2 the non-empty text a), other hint (0 none / 1 empty / 2 the non-empty text b), result *)\n"
            "Definition hint_rows : list (binop * nat * nat * result (option (list piece))) := [\n" + ";\n".join(hint_rows) + "\n].\n")
