"""Implementation side: import ahbicht from /repo's working tree, silence logging, small helpers."""
import asyncio
import logging
import os
import sys
import warnings

REPO = os.environ.get("VERIF_REPO", "/repo")
for p in (REPO, os.path.join(REPO, "src")):
    if p in sys.path:
        sys.path.remove(p)
    sys.path.insert(0, p)
warnings.simplefilter("ignore")
logging.disable(logging.CRITICAL)

import ahbicht  # noqa: E402

assert os.path.realpath(ahbicht.__file__).startswith(os.path.realpath(REPO)), ahbicht.__file__


def exc_class(e):
    """map an exception to the model's exn enum (as a Gallina term)"""
    from lark.exceptions import VisitError

    from ahbicht.expressions import InvalidExpressionError

    if isinstance(e, VisitError):
        return f"(VisitErr {exc_class(e.orig_exc)})"
    if isinstance(e, InvalidExpressionError):
        return "InvalidExpr"
    for cls, name in ((SyntaxError, "SyntaxErr"), (NotImplementedError, "NotImpl"), (KeyError, "KeyErr"), (OverflowError, "Overflow"),
                      (UnboundLocalError, "UnboundLocal"), (ValueError, "ValueErr"), (TypeError, "TypeErr"), (AttributeError, "AttrErr")):
        if isinstance(e, cls):
            return name
    try:
        from marshmallow import ValidationError

        if isinstance(e, ValidationError):
            return "ValidationErr"
    except ImportError:
        pass
    return "OtherErr"


def run(coro):
    return asyncio.run(coro)
