"""
Shared machinery of every check: regenerate Gen (tie T), build Coq, read `Print Assumptions`, run Gallina
case files (tie C), collect failures, apply the verdict protocol of DESIGN.md 2.3, write evidence / replays.
"""
import fcntl
import hashlib
import json
import os
import random
import re
import subprocess
import sys
import time

ROOT = os.path.dirname(os.path.dirname(os.path.abspath(__file__)))
COQ = os.path.join(ROOT, "coq")
WORK = os.path.join(ROOT, "work")
EVID = os.path.join(ROOT, "evidence")
REPLAYS = os.path.join(ROOT, "replays")
KNOWN = os.path.join(ROOT, "known_findings.txt")
REPO = os.environ.get("VERIF_REPO", "/repo")
NPROC = 16

# axioms a theorem may depend on (DESIGN.md section 8): none are needed so far
AXIOM_WHITELIST = set()

FORBIDDEN = re.compile(
    r"\b(Admitted|admit|Axiom|Axioms|Parameter|Parameters|Conjecture|Conjectures|Admit Obligations)\b"
    r"|Unset\s+Guard|Unset\s+Positivity|Unset\s+Universe\s+Checking|bypass_check|type-in-type|impredicative-set"
)


def sh(cmd, cwd=None, timeout=3600, env=None):
    p = subprocess.run(cmd, cwd=cwd, shell=isinstance(cmd, str), capture_output=True, text=True, timeout=timeout, env=env)
    return p.returncode, p.stdout + p.stderr


# ------------------------------------------------------------------ Coq project
def all_v_files():
    out = []
    for d in ("Gen", "Model", "Proofs", "Props", "Corr"):
        p = os.path.join(COQ, d)
        if os.path.isdir(p):
            out += sorted(os.path.join(d, f) for f in os.listdir(p) if f.endswith(".v"))
    return out


def write_coqproject():
    txt = "-Q . Ahb\n-arg -w -arg -notation-overridden,-deprecated-hint-without-locality,-deprecated-instance-without-locality\n"
    txt += "\n".join(all_v_files()) + "\n"
    path = os.path.join(COQ, "_CoqProject")
    old = open(path).read() if os.path.exists(path) else None
    if old != txt or not os.path.exists(os.path.join(COQ, "Makefile")):
        with open(path, "w") as f:
            f.write(txt)
        rc, out = sh("coq_makefile -f _CoqProject -o Makefile", cwd=COQ)
        if rc != 0:
            raise RuntimeError("coq_makefile failed: " + out)


class BuildLock:
    def __enter__(self):
        os.makedirs(WORK, exist_ok=True)
        self.f = open(os.path.join(WORK, ".build.lock"), "w")
        fcntl.flock(self.f, fcntl.LOCK_EX)
        return self

    def __exit__(self, *a):
        fcntl.flock(self.f, fcntl.LOCK_UN)
        self.f.close()


def coq_make(targets=None, clean=False, timeout=3000):
    """full .vo build (never -vos/-vok); returns (ok, log)"""
    with BuildLock():
        write_coqproject()
        if clean:
            sh("make clean", cwd=COQ)
            write_coqproject()
        tg = " ".join(targets) if targets else ""
        rc, out = sh(f"timeout {timeout} make -k -j{NPROC} {tg}", cwd=COQ, timeout=timeout + 60)
        return rc == 0, out


def scan_sources():
    """returns list of offending 'file:line: text' (forbidden vernacular, Variable/Hypothesis outside a section)"""
    bad = []
    for rel in all_v_files():
        depth = 0
        in_comment = 0
        with open(os.path.join(COQ, rel), encoding="utf-8") as f:
            for n, line in enumerate(f, 1):
                # strip comments (nesting aware, line granular is enough for our sources)
                code = ""
                i = 0
                while i < len(line):
                    if line.startswith("(*", i):
                        in_comment += 1
                        i += 2
                    elif line.startswith("*)", i) and in_comment:
                        in_comment -= 1
                        i += 2
                    else:
                        if not in_comment:
                            code += line[i]
                        i += 1
                if re.match(r"\s*Section\s+\w+", code):
                    depth += 1
                if re.match(r"\s*End\s+\w+", code) and depth > 0:
                    depth -= 1
                if FORBIDDEN.search(code):
                    bad.append(f"{rel}:{n}: {line.strip()}")
                if depth == 0 and re.match(r"\s*(Variable|Variables|Hypothesis|Hypotheses|Context)\b", code):
                    bad.append(f"{rel}:{n}: {line.strip()} (outside a section)")
    return bad


def props_assumptions(cid):
    """compile Props/<cid>.v and parse the Print Assumptions blocks: returns (ok, [(theorem, [axioms])], log)"""
    rel = f"Props/{cid}.v"
    src = open(os.path.join(COQ, rel), encoding="utf-8").read()
    names = re.findall(r"^Print Assumptions (\w+)\.", src, re.M)
    theorems = re.findall(r"^(?:Theorem|Corollary)\s+(\w+)", src, re.M)
    rc, out = sh(f"timeout 600 coqc -Q . Ahb -w -notation-overridden {rel}", cwd=COQ, timeout=700)
    if rc != 0:
        return False, [], out, theorems
    # blocks appear in order; each is either "Closed under the global context" or "Axioms:\n name : type ..."
    blocks = re.split(r"(?m)^(?=Closed under the global context|Axioms:)", out)
    blocks = [b for b in blocks if b.startswith("Closed under") or b.startswith("Axioms:")]
    res = []
    for name, b in zip(names, blocks):
        if b.startswith("Closed"):
            res.append((name, []))
        else:
            ax = re.findall(r"(?m)^(\S+)\s*:", b[len("Axioms:") :])
            res.append((name, ax))
    ok = len(blocks) == len(names) and set(theorems) <= set(names)
    return ok, res, out, theorems


# ------------------------------------------------------------------ Gallina printing
def gtext(s):
    if s is None:
        raise ValueError("gtext(None)")
    if s == "":
        return "(@nil N)"
    return "[" + ";".join(str(ord(c)) for c in s) + "]%N"


def gopt(x, f):
    return "None" if x is None else f"(Some {f(x)})"


def gbool(b):
    return "true" if b else "false"


def glist(xs, f=lambda x: x):
    return "[" + "; ".join(f(x) for x in xs) + "]"


def run_case_files(cid, imports, case_type, check_fn, cases, shard=400, defs=""):
    """
    cases: list of Gallina terms of type case_type; check_fn: Gallina term case_type -> bool.
    Writes work/<cid>/cases_k.v, runs them under xargs -P, returns (n_evaluated, [bad indices], error or None)
    """
    if REPLAY is not None:
        return len(cases), [], None
    d = os.path.join(WORK, cid)
    os.makedirs(d, exist_ok=True)
    for f in os.listdir(d):
        if f.startswith("cases_"):
            os.remove(os.path.join(d, f))
    files = []
    for k in range(0, len(cases), shard):
        name = f"cases_{k // shard:04d}"
        body = [imports, defs, f"Definition cases : list ({case_type}) :=\n [ " + ";\n   ".join(cases[k : k + shard]) + " ].",
                f"Definition verdict := Eval vm_compute in (run_cases ({check_fn}) cases).", "Print verdict."]
        with open(os.path.join(d, name + ".v"), "w", encoding="utf-8") as f:
            f.write("\n".join(body) + "\n")
        files.append((name, k))
    if not files:
        return 0, [], None
    listing = "\n".join(n for n, _ in files)
    cmd = f"cd {d} && printf '%s\\n' {' '.join(n for n, _ in files)} | xargs -P{NPROC} -I@ sh -c 'timeout 900 coqc -Q {COQ} Ahb -w none @.v > @.out 2>&1 || echo FAILED >> @.out'"
    sh(cmd, timeout=7200)
    total, bad, err = 0, [], None
    for name, base in files:
        out = open(os.path.join(d, name + ".out"), encoding="utf-8", errors="replace").read()
        flat = " ".join(out.split())
        m = re.search(r"verdict = \((\d+)(?:%nat)?, (\[[^\]]*\]|nil)\)", flat)
        if not m or "FAILED" in out:
            err = f"{name}: coqc failed: {out[-800:]}"
            continue
        total += int(m.group(1))
        lst = m.group(2)
        if lst not in ("[]", "nil"):
            bad += [base + int(x.replace("%nat", "")) for x in lst.strip("[]").split(";") if x.strip()]
    # clean compiled case files (disk)
    for f in os.listdir(d):
        if f.endswith((".vo", ".vos", ".vok", ".glob", ".aux")) or f.startswith("."):
            try:
                os.remove(os.path.join(d, f))
            except OSError:
                pass
    return total, bad, err


def eval_terms(cid, imports, terms, tag="eval"):
    """Evaluate Gallina terms with vm_compute; returns list of printed strings (whitespace-normalised)"""
    if REPLAY is not None:
        return None, "replay mode: the model is not evaluated"
    d = os.path.join(WORK, cid)
    os.makedirs(d, exist_ok=True)
    path = os.path.join(d, f"{tag}.v")
    with open(path, "w", encoding="utf-8") as f:
        f.write(imports + "\n")
        for i, t in enumerate(terms):
            f.write(f'Definition out_{i} := Eval vm_compute in ({t}).\nPrint out_{i}.\n')
    rc, out = sh(f"timeout 900 coqc -Q {COQ} Ahb -w none {tag}.v", cwd=d, timeout=1000)
    if rc != 0:
        return None, out
    res = []
    flat = " ".join(out.split())
    parts = re.split(r"out_\d+ = ", flat)[1:]
    for p in parts:
        res.append(re.sub(r" : [^:]*$", "", p).strip())
    return res, out


# ------------------------------------------------------------------ replaying one recorded failing input
# A replay re-runs the implementation side of the check (same seed and tier, hence the same corpus; no Coq) and reports whether the
# recorded failing input fails again: exit 1 if it does, 0 if it does not.
REPLAY = None


class ReplayDone(Exception):
    pass


def _keystr(k):
    return json.dumps(k, sort_keys=True, default=str, ensure_ascii=False)


def generic_replay(mod, cid, path):
    global REPLAY
    r = json.load(open(path, encoding="utf-8"))
    if "key" not in r:
        print("this replay file names the obligation that no longer checks; there is no failing input to replay")
        return None
    REPLAY = {"key": _keystr(r["key"]), "hit": None}
    ctx = Ctx(cid, r.get("tier", "quick"), int(r.get("seed", 0)))
    try:
        mod.run(ctx)
    except ReplayDone:
        pass
    hit, REPLAY = REPLAY["hit"], None
    print("replayed input:", json.dumps(r.get("input"), ensure_ascii=False, default=str)[:1500])
    print("recorded: expected", str(r.get("expected"))[:400], "| observed", str(r.get("observed"))[:400])
    if hit:
        print("now: fails again -- observed", str(hit["observed"])[:400], "|", hit["how"])
        return 1
    print("now: this input no longer fails")
    return 0


# ------------------------------------------------------------------ context / verdict
class Ctx:
    def __init__(self, cid, tier, seed):
        self.cid, self.tier, self.seed = cid, tier, seed
        self.rng = random.Random(f"{cid}-{seed}")
        self.t0 = time.time()
        self.broken = []  # obligations / correspondences that no longer check: (what, detail)
        self.failures = []  # failing inputs found on the implementation: dicts with key, input, expected, observed, how
        self.coverage = {"evaluations": 0, "distinct_nontrivial": 0, "samples": [], "rule": "", "obligations": 0, "discharged": 0}
        self.assumptions = []
        self.theorems = []
        self.notes = {}
        self.trusted = []

    @property
    def quick(self):
        return self.tier == "quick"

    def broke(self, what, detail=""):
        self.broken.append({"what": what, "detail": detail[-3000:]})

    def fail(self, key, inp, expected, observed, how):
        self.failures.append({"key": key, "input": inp, "expected": expected, "observed": observed, "how": how})
        if REPLAY is not None and _keystr(key) == REPLAY["key"]:
            REPLAY["hit"] = self.failures[-1]
            raise ReplayDone()

    def add_eval(self, n, nontrivial=0):
        self.coverage["evaluations"] += n
        self.coverage["distinct_nontrivial"] += nontrivial

    def dist(self, name, value):
        """input distribution, printed into the evidence: how often a generated input had this size / kind / outcome"""
        d = self.notes.setdefault("input_distribution", {}).setdefault(name, {})
        d[str(value)] = d.get(str(value), 0) + 1

    @staticmethod
    def bucket(n):
        return str(n) if n <= 3 else "4-7" if n <= 7 else "8-15" if n <= 15 else "16-31" if n <= 31 else "32+"

    def sample(self, x, cap=6):
        if len(self.coverage["samples"]) < cap:
            self.coverage["samples"].append(x)


def load_known():
    known, fixed = [], []
    if os.path.exists(KNOWN):
        for line in open(KNOWN, encoding="utf-8"):
            line = line.strip()
            if line.startswith("known:"):
                m = re.match(r"known:\s*property=(\S+)\s+key=(\S+)\s*(.*)", line)
                if m:
                    known.append(m.groups())
            elif line.startswith("fixed:"):
                fixed.append(line)
    return known, fixed


def prepare(ctx, gens, targets):
    """steps a+b of the verdict protocol. gens: Gen files this property depends on; targets: .vo files to build"""
    from vlib import translate

    if REPLAY is not None:
        return {}
    st = translate.regenerate()
    for g in gens:
        if st.get(g):
            ctx.broke(f"translation {g} (tie T) failed", st[g])
    ctx.notes["gen_status"] = {k: ("ok" if v is None else "FAILED") for k, v in st.items()}
    if translate.TABULATED:   # finite-domain functions outside the syntactic subset: tabulated from the loaded code (DESIGN.md section 14)
        ctx.notes["tabulated_definitions"] = [{"definition": d, "reason": w[:200]} for d, w in translate.TABULATED]
    targets = list(targets) + ["Corr/Sound.vo"]   # the comparison functions of the correspondence are proved sound on every run
    ok, log = coq_make(targets, clean=(ctx.tier == "thorough" and os.environ.get("VERIF_NO_CLEAN") != "1"))
    if not ok:
        errs = re.findall(r'File "([^"]+)", line (\d+)[^\n]*\n(?:[^\n]*\n){0,12}?Error:[^\n]*(?:\n[^\n]*){0,6}', log)
        first = re.search(r'File "[^"]+", line \d+.*?Error:.*?(?=\nmake|\nFile|\Z)', log, re.S)
        ctx.broke("Coq build failed for " + " ".join(targets), first.group(0) if first else log[-2000:])
    bad = scan_sources()
    if bad:
        ctx.broke("forbidden vernacular in the development", "\n".join(bad))
    cid = ctx.cid
    pok, res, plog, theorems = props_assumptions(cid) if ok else (False, [], "not built", [])
    ctx.theorems = theorems
    ctx.coverage["obligations"] = max(len(theorems), 1)
    disc = 0
    for name, ax in res:
        extra = [a for a in ax if a not in AXIOM_WHITELIST]
        ctx.assumptions.append({"theorem": name, "axioms": ax})
        if extra:
            ctx.broke(f"theorem {name} depends on axioms outside the whitelist", ", ".join(extra))
        else:
            disc += 1
    if ok and not pok:
        ctx.broke(f"Props/{cid}.v does not check", plog[-2000:])
    if ok and pok and ctx.tier == "thorough" and os.environ.get("VERIF_NO_COQCHK") != "1":
        # independent re-check of the compiled property file and everything it depends on
        rc, out = sh(f"timeout 1500 coqchk -silent -o -Q . Ahb Ahb.Props.{cid}", cwd=COQ, timeout=1600)
        m = re.search(r"\* Axioms:(.*?)\n\s*\n\* Constants/Inductives relying on type-in-type:(.*?)\n\s*\n\* Constants/Inductives relying on unsafe \(co\)fixpoints:(.*?)\n\s*\n\* Inductives whose positivity is assumed:(.*?)\n", out + "\n", re.S)
        ctx.notes["coqchk"] = {"exit": rc, "axioms": " ".join(m.group(1).split()) if m else out[-500:], "type_in_type": " ".join(m.group(2).split()) if m else None,
                               "unsafe_fixpoints": " ".join(m.group(3).split()) if m else None, "assumed_positivity": " ".join(m.group(4).split()) if m else None}
        if rc != 0 or not m or any(" ".join(m.group(i).split()) != "<none>" for i in (1, 2, 3, 4)):
            ctx.broke(f"coqchk -o on Props/{cid}.vo does not come back clean", out[-1500:])
    ctx.coverage["discharged"] = disc
    ctx.coverage["checker_cmd"] = (f"make -j{NPROC} (coqc 8.16.1, full .vo) ; coqc Props/{cid}.v (Print Assumptions under every theorem)"
                                   + (f" ; coqchk -silent -o Ahb.Props.{cid}" if ctx.tier == "thorough" else ""))
    return ok and pok


def finish(ctx, assumptions=(), level="proof"):
    if REPLAY is not None:
        return 0
    os.makedirs(EVID, exist_ok=True)
    os.makedirs(REPLAYS, exist_ok=True)
    known, _fixed = load_known()
    cid = ctx.cid
    lines = []
    nviol = 0
    reported = set()
    for f in ctx.failures:
        k = f["key"]
        if k in reported:
            continue
        reported.add(k)
        hit = [x for x in known if x[0] == cid and x[1] == k]
        if hit:
            lines.append(f"KNOWN-FINDING: property={cid} {hit[0][2]}")
            continue
        h = hashlib.sha1(json.dumps(k, sort_keys=True).encode()).hexdigest()[:10]
        path = os.path.join(REPLAYS, f"{cid}-{h}.json")
        with open(path, "w", encoding="utf-8") as fh:
            json.dump({"property": cid, "seed": ctx.seed, "tier": ctx.tier, **f, "broken_obligations": ctx.broken}, fh, indent=1, ensure_ascii=False, default=str)
        lines.append(f"VIOLATION property={cid} replay={path}")
        nviol += 1
        if nviol >= 5:
            break
    if ctx.broken and nviol == 0 and not any(l.startswith("KNOWN-FINDING") for l in lines):
        h = hashlib.sha1(json.dumps(ctx.broken, sort_keys=True).encode()).hexdigest()[:10]
        path = os.path.join(REPLAYS, f"{cid}-unproved-{h}.json")
        with open(path, "w", encoding="utf-8") as fh:
            json.dump({"property": cid, "seed": ctx.seed, "tier": ctx.tier, "no_longer_checks": ctx.broken,
                       "note": "a proof obligation / translation / correspondence no longer checks; the search over model witnesses and the generated corpus found no failing input on the implementation"}, fh, indent=1, ensure_ascii=False)
        lines.append(f"VIOLATION property={cid} replay={path} no-failing-input-found")
        nviol += 1
    elif ctx.broken and nviol == 0:
        # only known findings explain... but a broken obligation remains: still report
        h = hashlib.sha1(json.dumps(ctx.broken, sort_keys=True).encode()).hexdigest()[:10]
        path = os.path.join(REPLAYS, f"{cid}-unproved-{h}.json")
        with open(path, "w", encoding="utf-8") as fh:
            json.dump({"property": cid, "no_longer_checks": ctx.broken}, fh, indent=1, ensure_ascii=False)
        lines.append(f"VIOLATION property={cid} replay={path} no-failing-input-found")
        nviol += 1
    cov = dict(ctx.coverage)
    cov["trusted_base"] = [
        "Coq 8.16.1 kernel incl. vm_compute (no native_compute); coqchk -o in the thorough tier",
        "axioms per theorem (Print Assumptions): " + ("; ".join(f"{a['theorem']}: {', '.join(a['axioms']) or 'closed under the global context'}" for a in ctx.assumptions) or "n/a"),
        "vlib/translate.py + vlib/py2coq.py (tie T; validated on every run against the Python functions on their finite/dense domains)",
        "correspondence harness vlib/* (generators, Gallina printer, observation canonicalisation, coqc output parsing); the comparison functions and the case runner are proved sound (Corr/Sound.v and the Corr/*.v files); no extraction",
    ] + list(ctx.trusted)
    cov["assumptions_per_theorem"] = ctx.assumptions
    cov["broken"] = ctx.broken
    cov.update(ctx.notes)
    ev = {
        "property_id": cid,
        "tier": ctx.tier,
        "seed": ctx.seed,
        "level": level,
        "coverage": cov,
        "assumptions": list(assumptions),
        "wall_s": round(time.time() - ctx.t0, 2),
        "violations": nviol,
    }
    if not isinstance(cov.get("exhaustive", False), bool):
        cov["exhaustive_scope"] = cov["exhaustive"]
        cov["exhaustive"] = False
    if not isinstance(cov.get("samples"), list) or not cov["samples"]:
        cov["samples"] = [{"note": "no sample recorded"}]
    with open(os.path.join(EVID, f"{cid}.json"), "w", encoding="utf-8") as fh:
        json.dump(ev, fh, indent=1, ensure_ascii=False, default=str)
    for l in lines:
        print(l)
    print(f"[{cid}] tier={ctx.tier} seed={ctx.seed} obligations={cov['obligations']} discharged={cov['discharged']} "
          f"evaluations={cov['evaluations']} failures={len(ctx.failures)} broken={len(ctx.broken)} wall={ev['wall_s']}s")
    return 1 if nviol else 0
