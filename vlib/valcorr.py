"""
Shared harness for C09 (AHB-expression evaluation), C13, C14, C16, C17 (validation): generators of AHB expressions and
AHB trees, conversion to Gallina, running ahbicht, canonicalising observations.
A python-side tree:  ('G', discr, expr, [children])  |  ('S', discr, expr, [data elements])
data elements:       ('F', discr, expr, input, value_type)  |  ('P', discr, [(qualifier, meaning, expr)], input)
"""
import asyncio

from vlib import evalimpl, exprs, impl
from vlib.evalcorr import fc_obs, rc_obs
from vlib.exprs import gcer, to_gallina
from vlib.runner import gbool, gopt, gtext

IMPORTS = ("From Ahb Require Import Model.Prelude Model.Grammar Gen.Gen_logic Gen.Gen_valmaps Gen.Gen_enums "
           "Model.EvalRC Model.EvalFC Model.EvalAhb Model.Validate Corr.Eval Corr.Validate.")
MM = ["Muss", "M", "muss", "m", "MUSS", "Soll", "S", "soll", "s", "Kann", "K", "kann", "k", "kANN", "MUss", "mUsS", "sOLl", "SOll", "KaNN"]   # any letter case
PO = ["X", "O", "U", "x", "o", "u"]
# small pools so that the same keys meet again; the boundary keys of the documented ranges are among them (499 is the last requirement constraint of the
# first range, 500 / 900 the first / last hint, 999 the last format constraint)
RC, HINTS, FCS = ["1", "2", "3", "4", "499"], ["501", "502", "900", "500"], ["901", "902", "999"]
PACKAGES = {"1P": "[1] U [2]", "2P": "[3]", "3P": "[1][901]", "4P": "[501]", "5P": "[UB1]", "6P": "[UB1] U [UB2]", "9P": None}
# package definitions vary from one content evaluation result to the next (same key, other expression)
PACKAGE_CHOICES = {"1P": ["[1] U [2]", "[2]", "[1] O [4]"], "2P": ["[3]", "[4]", "[1] X [3]"], "3P": ["[1][901]", "[2][902]"], "4P": ["[501]", "[502]"],
                   # packages whose expression brings time conditions along (they become format constraints once the package is expanded)
                   "5P": ["[UB1]", "[UB2]"], "6P": ["[UB1] U [UB2]", "[UB3]"], "9P": [None]}
CURRENT_PACKAGES = dict(PACKAGES)
EXTRA_ATTRS = [False]  # whether to_maus fills the optional attributes ahb_line_index / section_name (set per case by validation_cases / reset_cer)
EMPTY_HINT = [0.0]   # probability that a hint of a generated content evaluation result has the empty text (set by the checks that want it)


# ------------------------------------------------------------------ AHB expressions
def cond_expr(rng, kind="any"):
    """condition expression string: valid / invalid (structurally) / with packages & time conditions"""
    if kind == "any":
        kind = rng.choices(["valid", "invalid", "pkg", "simple"], [6, 1, 1, 4])[0]
    if kind == "simple":
        return f"[{rng.choice(RC)}]"
    if kind == "pkg":
        return rng.choice(["[1P]", "[2P] U [4]", "[3P]", "[4] O [1P]", "[1P1..2] U [2]", "[UB1]", "[UB3] U [1]", "[2P][902]", "[1] U [5P]", "[2][5P]", "[3] U [6P]"])
    for _ in range(50):
        t = exprs.random_dom_tree(rng, rng.randint(1, 5), RC, HINTS, FCS)
        if (kind == "valid") == exprs.valid(t):
            return exprs.to_string(t)
    return "[1]" if kind == "valid" else "[1] O [501]"


def ahb_expr(rng, kind="any"):
    r = rng.random()
    ws = lambda: rng.choice(("", " ", "  "))
    if r < 0.12:
        return rng.choice(MM + PO)  # bare indicator
    if r < 0.27:
        return rng.choice(PO) + ws() + cond_expr(rng, kind)
    n = rng.choices([1, 2, 3], [6, 3, 1])[0]
    s = "".join(rng.choice(MM) + ws() + cond_expr(rng, kind) + ws() for _ in range(n)).rstrip() if rng.random() < 0.5 else \
        "".join(rng.choice(MM) + ws() + cond_expr(rng, kind) + ws() for _ in range(n))
    if rng.random() < 0.2:
        s += rng.choice(MM)
    return s


def random_cer(rng, unknown=0.1, missing=0.0):
    st = ["FULFILLED", "UNFULFILLED", "UNKNOWN"]
    rc = {k: rng.choices(st, [5, 4, 10 * unknown])[0] for k in RC + ["492", "493"] if rng.random() >= missing}
    hints = {k: ("" if rng.random() < EMPTY_HINT[0] else "H" + k) for k in HINTS}   # a hint text may be any string, the empty one included
    fc = {}
    for k in FCS + ["932", "934"]:
        ok = rng.random() < 0.6
        fc[k] = (ok, None if ok else f"{k} muss erfüllt sein")
    return rc, hints, fc


# ------------------------------------------------------------------ resolved trees -> Gallina
def resolved(expr_str):
    """('ok', lark tree) | ('exn', class) of parse_expression_including_unresolved_subexpressions(expr, resolve_packages=True)"""
    from ahbicht.expressions.expression_resolver import parse_expression_including_unresolved_subexpressions

    return evalimpl.outcome(lambda: asyncio.run(parse_expression_including_unresolved_subexpressions(expr_str, resolve_packages=True)))


def nx_term(res):
    """Gallina term of type nxc for a resolved tree (Exn OtherErr when the tree is outside the model's domain)"""
    from lark import Token, Tree

    tag, v = res
    if tag == "exn":
        return f"(Exn {v})"
    if not isinstance(v, Tree) or v.data != "ahb_expression":
        return "(Exn OtherErr)"
    parts = []
    for ch in v.children:
        if not isinstance(ch, Tree):
            return "(Exn OtherErr)"
        toks = ch.children
        if ch.data == "single_requirement_indicator_expression" and len(toks) == 2 and isinstance(toks[0], Token) and isinstance(toks[1], Tree):
            t = exprs.from_lark(toks[1])
            if t is None:
                return "(Exn OtherErr)"
            parts.append(f"PExpr ({'TokMM' if toks[0].type == 'MODAL_MARK' else 'TokPO'} {gtext(str(toks[0]))}) {to_gallina(t)}")
        elif ch.data == "requirement_indicator" and len(toks) == 1 and isinstance(toks[0], Token):
            parts.append(f"PBare ({'TokMM' if toks[0].type == 'MODAL_MARK' else 'TokPO'} {gtext(str(toks[0]))})")
        else:
            return "(Exn OtherErr)"
    return "(Ok [" + "; ".join(parts) + "])"


def invalid_message(res):
    """error_message of the InvalidExpressionError the node's expression raises (None if it does not)"""
    from ahbicht.expressions import InvalidExpressionError
    from ahbicht.expressions.ahb_expression_evaluation import evaluate_ahb_expression_tree

    if res[0] != "ok":
        return None
    try:
        asyncio.run(evaluate_ahb_expression_tree(res[1]))
    except InvalidExpressionError as e:
        return e.error_message
    except BaseException:  # pylint: disable=broad-except
        return None
    return None


# ------------------------------------------------------------------ AHB trees
def random_de(rng, i, kind="any"):
    if rng.random() < 0.6:
        inp = rng.choice([None, "", "abc", "2022-01-01T00:00:00Z"])
        if rng.random() < 0.12:
            inp = rng.choice([" ", "\t ", "\n"])   # entered, though only white space: an input is filled iff it is a non-empty text
        vt = rng.choice([None, "TEXT", "DATETIME"])
        return ("F", f"de{i}", ahb_expr(rng, kind), inp, vt)
    n = rng.choices([0, 1, 2, 3, 4], [1, 3, 5, 4, 2])[0]
    pool = [(f"Q{j}" if rng.random() < 0.9 else "Q0", f"meaning {j}", ahb_expr(rng, kind)) for j in range(n)]
    offered = [q for q, _, _ in pool]
    inp = rng.choice([None, "", "ZZZ"] + offered) if offered else rng.choice([None, "", "ZZZ"])
    return ("P", f"de{i}", pool, inp)


def random_node(rng, depth, counter, kind="any"):
    counter[0] += 1
    i = counter[0]
    if depth > 0 and rng.random() < 0.55:
        ngroups = rng.choice((0, 0, 1, 2)) if depth > 1 else 0
        nsegs = rng.choice((0, 1, 1, 2, 3))
        children = [random_node(rng, depth - 1, counter, kind) for _ in range(ngroups)]
        children = [c if c[0] == "G" else ("G", c[1], c[2], []) for c in children]
        segs = [random_seg(rng, counter, kind) for _ in range(nsegs)]
        return ("G", f"sg{i}", ahb_expr(rng, kind), children + segs)
    return random_seg(rng, counter, kind, i)


def random_seg(rng, counter, kind="any", i=None):
    if i is None:
        counter[0] += 1
        i = counter[0]
    des = []
    for _ in range(rng.choice((0, 1, 2, 2, 3, 4))):
        counter[0] += 1
        des.append(random_de(rng, counter[0], kind))
    return ("S", f"seg{i}", ahb_expr(rng, kind), des)


def random_ahb(rng, kind="any"):
    counter = [0]
    lines = []
    for _ in range(rng.choice((1, 1, 2, 3))):
        n = random_node(rng, 3, counter, kind)
        if n[0] == "S":
            n = ("G", "root" + n[1], rng.choice(["X", "Muss", "Muss [1]", "Kann"]), [n])
        lines.append(n)
    return lines


def with_repeated_discriminators(rng, lines, p):
    """the same AHB with some discriminators repeated: a node takes over the discriminator of an earlier node of its kind (an earlier sibling with
    probability 2/3). Discriminators are neither unique nor mandatory in real AHBs (SG2 twice at the top level, repeated data element names)."""
    seen = {"G": [], "S": [], "D": []}

    def pick(kind, sibs, own):
        pool = sibs if sibs and rng.random() < 0.67 else seen[kind]
        d = rng.choice(pool) if pool and rng.random() < p else own
        seen[kind].append(d)
        sibs.append(d)
        return d

    def go(n, sibs):
        if n[0] == "G":
            d = pick("G", sibs["G"], n[1])
            inner = {"G": [], "S": [], "D": []}
            return ("G", d, n[2], [go(c, inner) for c in n[3]])
        if n[0] == "S":
            d = pick("S", sibs["S"], n[1])
            inner = {"G": [], "S": [], "D": []}
            return ("S", d, n[2], [go(c, inner) for c in n[3]])
        d = pick("D", sibs["D"], n[1])
        return (n[0], d) + tuple(n[2:])

    top = {"G": [], "S": [], "D": []}
    return [go(n, top) for n in lines]


def map_exprs(node, f):
    """apply f to every AHB expression string of the tree"""
    k = node[0]
    if k == "G":
        return ("G", node[1], f(node[2]), [map_exprs(c, f) for c in node[3]])
    if k == "S":
        return ("S", node[1], f(node[2]), [map_exprs(c, f) for c in node[3]])
    if k == "F":
        return ("F", node[1], f(node[2]), node[3], node[4])
    return ("P", node[1], [(q, m, f(x)) for q, m, x in node[2]], node[3])


def all_exprs(node):
    k = node[0]
    if k in ("G", "S"):
        yield node[2]
        for c in node[3]:
            yield from all_exprs(c)
    elif k == "F":
        yield node[2]
    else:
        for _, _, x in node[2]:
            yield x


def to_maus(node):
    from maus.models.edifact_components import DataElementDataType, DataElementFreeText, DataElementValuePool, Segment, SegmentGroup, ValuePoolEntry

    k = node[0]
    extra = {}
    if EXTRA_ATTRS[0] and k in ("G", "S"):
        # attributes of the maus model that say nothing about the requirement: a line index (NOT in list order) and, for segments, a section name
        import random as _random

        r = _random.Random(f"{node[1]}|{node[2]}|{len(node[3])}")
        extra["ahb_line_index"] = r.randint(0, 400)
        if k == "S":
            extra["section_name"] = r.choice(["Nachrichten-Kopfsegment", "Beginn der Nachricht", "MP-ID Absender", None])
    if k == "G":
        ch = [to_maus(c) for c in node[3]]
        return SegmentGroup(discriminator=node[1], ahb_expression=node[2], segment_groups=[c for c in ch if isinstance(c, SegmentGroup)],
                            segments=[c for c in ch if isinstance(c, Segment)], **extra)
    if k == "S":
        return Segment(discriminator=node[1], ahb_expression=node[2], data_elements=[to_maus(c) for c in node[3]], **extra)
    if k == "F":
        kw = {} if node[4] is None else {"value_type": DataElementDataType[node[4]]}
        return DataElementFreeText(discriminator=node[1], ahb_expression=node[2], entered_input=node[3], data_element_id="0001", **kw)
    return DataElementValuePool(discriminator=node[1], value_pool=[ValuePoolEntry(qualifier=q, meaning=m, ahb_expression=x) for q, m, x in node[2]],
                                entered_input=node[3], data_element_id="0002")


class ExprCache:
    """per CER: resolved tree, Gallina term and invalid-reason of every expression string"""

    def __init__(self):
        self.res, self.term, self.inv = {}, {}, {}

    def get(self, s):
        if s not in self.res:
            self.res[s] = resolved(s)
            self.term[s] = nx_term(self.res[s])
            self.inv[s] = invalid_message(self.res[s])
        return self.term[s]


def node_term(node, cache):
    k = node[0]
    if k == "G":
        # the code validates sub-groups first, then segments
        groups = [c for c in node[3] if c[0] == "G"]
        segs = [c for c in node[3] if c[0] == "S"]
        return f"(NGroup {gtext(node[1])} {cache.get(node[2])} [" + "; ".join(node_term(c, cache) for c in groups + segs) + "])"
    if k == "S":
        return f"(NSeg {gtext(node[1])} {cache.get(node[2])} [" + "; ".join(node_term(c, cache) for c in node[3]) + "])"
    return de_term(node, cache)


def de_term(node, cache):
    if node[0] == "F":
        vt = "None" if node[4] is None else f"(Some DT_{node[4]})"
        return f"(DEFree {gtext(node[1])} {cache.get(node[2])} {gopt(node[3], gtext)} {vt})"
    pool = "[" + "; ".join(f"({gtext(q)}, {gtext(m)}, {cache.get(x)})" for q, m, x in node[2]) + "]"
    return f"(DEPool {gtext(node[1])} {pool} {gopt(node[3], gtext)})"


def vres_term(r, invalid_msgs):
    """ValidationResultInContext -> Gallina (text * vres); hints equal to an invalid-expression reason are canonicalised"""
    from ahbicht.models.validation_results import DataElementValidationResult

    v = r.validation_result
    hints = v.hints
    if hints is not None and hints in invalid_msgs:
        hints = "<invalid>"
    rv = v.requirement_validation.name
    if isinstance(v, DataElementValidationResult):
        pv = None if v.possible_values is None else "[" + "; ".join(f"({gtext(a)}, {gtext(b)})" for a, b in v.possible_values.items()) + "]"
        dt = v.data_element_data_type.name if v.data_element_data_type is not None else "TEXT"
        return (f"({gtext(r.discriminator)}, VDe {rv} {gbool(v.format_validation_fulfilled)} {gopt(v.format_error_message, gtext)} "
                f"{gopt(hints, gtext)} {'None' if pv is None else '(Some ' + pv + ')'} DT_{dt})")
    return f"({gtext(r.discriminator)}, VSeg {rv} {gopt(hints, gtext)})"


def run_validation(lines, soll):
    from maus.models.anwendungshandbuch import AhbMetaInformation, DeepAnwendungshandbuch
    from ahbicht.validation.validation import validate_deep_anwendungshandbuch

    deep = DeepAnwendungshandbuch(meta=AhbMetaInformation(pruefidentifikator="11042"), lines=[to_maus(n) for n in lines])
    return evalimpl.outcome(lambda: asyncio.run(validate_deep_anwendungshandbuch(deep, soll_is_required=soll)))


def run_validation_both_flags(lines, order=(True, False), delay=0):
    """the strict and the lenient validation of one AHB in flight at the same time on one event loop (the second started after `delay` turns of the loop);
    returns the outcomes in the order of `order`"""
    from maus.models.anwendungshandbuch import AhbMetaInformation, DeepAnwendungshandbuch
    from ahbicht.validation.validation import validate_deep_anwendungshandbuch

    # one AHB object per validation: validate_data_element_valuepool clears an entered value that is not offered IN the AHB it is handed ("overwrite the illegal
    # value"), so a second validation of the same object no longer sees that input -- sequentially as well; not what is compared here
    deeps = {flag: DeepAnwendungshandbuch(meta=AhbMetaInformation(pruefidentifikator="11042"), lines=[to_maus(n) for n in lines]) for flag in order}

    async def later(flag, turns):
        for _ in range(turns):
            await asyncio.sleep(0)
        return await validate_deep_anwendungshandbuch(deeps[flag], soll_is_required=flag)

    async def both():
        return await asyncio.gather(later(order[0], 0), later(order[1], delay), return_exceptions=True)

    def as_outcome(r):
        def again():
            if isinstance(r, BaseException):
                raise r
            return r
        return evalimpl.outcome(again)

    return [as_outcome(r) for r in asyncio.run(both())]


def run_segment_level(node, soll):
    """validate_segment_level with a segment group or a segment as root"""
    from ahbicht.validation.validation import validate_segment_level

    m = to_maus(node)
    return evalimpl.outcome(lambda: asyncio.run(validate_segment_level(m, soll_is_required=soll)))


def run_segment(node, parent_status, soll):
    """validate_segment(segment, segment_group_requirement, soll_is_required)"""
    from ahbicht.models.validation_values import RequirementValidationValue as R
    from ahbicht.validation.validation import validate_segment

    m = to_maus(node)
    return evalimpl.outcome(lambda: asyncio.run(validate_segment(m, None if parent_status is None else R[parent_status], soll)))


def first_segment(node):
    if node[0] == "S":
        return node
    if node[0] == "G":
        for c in node[3]:
            s = first_segment(c)
            if s is not None:
                return s
    return None


def val_obs(res, invalid_msgs):
    tag, v = res
    if tag == "exn":
        return f"(Exn {v})"
    return "(Ok [" + "; ".join(vres_term(r, invalid_msgs) for r in v) + "])"


def summarize(res):
    """python-side canonical form of a validation outcome (for oracles)"""
    tag, v = res
    if tag == "exn":
        return ("exn", v)
    out = []
    for r in v:
        x = r.validation_result
        out.append((r.discriminator, x.requirement_validation.name, x.hints, getattr(x, "format_validation_fulfilled", None),
                    getattr(x, "format_error_message", None), None if getattr(x, "possible_values", None) is None else tuple(x.possible_values.items())))
    return ("ok", out)


def ahb_obs(res):
    tag, v = res
    if tag == "exn":
        return f"(Exn {v})"
    ind = v.requirement_indicator
    from ahbicht.models.enums import PrefixOperator

    iname = ("I_P" if isinstance(ind, PrefixOperator) else "I_") + ind.name
    rc = rc_obs(("ok", v.requirement_constraint_evaluation_result))[4:-1]
    fc = fc_obs(("ok", v.format_constraint_evaluation_result))[4:-1]
    return f"(Ok ({iname}, {rc}, {fc}))"


# ------------------------------------------------------------------ shared drivers
def setup_cer(rng, unknown=0.05):
    rc, h, fc = random_cer(rng, unknown=unknown)
    CURRENT_PACKAGES.clear()
    CURRENT_PACKAGES.update({k: rng.choice(v) for k, v in PACKAGE_CHOICES.items()})
    evalimpl.set_cer(rc=rc, hints=h, fc=fc, packages=dict(CURRENT_PACKAGES))
    return rc, h, fc


def reset_cer(case):
    """re-install the content evaluation result (incl. the package table) a case was generated with"""
    EXTRA_ATTRS[0] = bool(case.get("extra_attrs"))
    rc, h, fc = case["cer"]
    evalimpl.set_cer(rc=rc, hints=h, fc=fc, packages=dict(case["packages"]))


def validation_cases(ctx, n_trees, kind="any", unknown=0.05, flags=(True, False), revisit=0.0, repeat_discriminators=0.0, extra_attrs=0.0):
    """yields dicts: cer, lines, soll, result, cache, term (Gallina val_case).
    revisit: probability that a tree is the previous tree again, validated under another content evaluation result (the same expression strings
    meet other content in the same process)"""
    out = []
    lines = None
    for _ in range(n_trees):
        rc, h, fc = setup_cer(ctx.rng, unknown)
        cache = ExprCache()
        if lines is None or revisit <= 0 or ctx.rng.random() >= revisit:
            lines = random_ahb(ctx.rng, kind)
            if repeat_discriminators > 0:
                lines = with_repeated_discriminators(ctx.rng, lines, repeat_discriminators)
        lt = "[" + "; ".join(node_term(n, cache) for n in lines) + "]"
        inv = {m for m in cache.inv.values() if m}
        kinds = {"G": 0, "S": 0, "F": 0, "P": 0}

        def walk(n, depth):
            kinds[n[0]] += 1
            return max([depth] + [walk(c, depth + 1) for c in (n[3] if n[0] in ("G", "S") else [])])

        depth = max(walk(n, 1) for n in lines)
        ctx.dist("ahb_tree.nodes", ctx.bucket(sum(kinds.values())))
        ctx.dist("ahb_tree.depth", depth)
        for k_, v_ in kinds.items():
            for _i in range(v_):
                ctx.dist("ahb_tree.node_kind", {"G": "segment group", "S": "segment", "F": "free text", "P": "value pool"}[k_])
        EXTRA_ATTRS[0] = ctx.rng.random() < extra_attrs
        for soll in flags:
            res = run_validation(lines, soll)
            ctx.dist("validation.outcome", "rows" if res[0] == "ok" else str(res[1]))
            if res[0] == "ok":
                for r_ in res[1]:
                    ctx.dist("validation.status", r_.validation_result.requirement_validation.name)
            out.append({"cer": (rc, h, fc), "packages": dict(CURRENT_PACKAGES), "lines": lines, "soll": soll, "res": res, "cache": cache, "extra_attrs": EXTRA_ATTRS[0],
                        "term": f"({gcer(rc, h, fc)}, {lt}, {gbool(soll)}, {val_obs(res, inv)})"})
    EXTRA_ATTRS[0] = False
    return out


def small_scope_cases(ctx, group_exprs, seg_exprs, de_exprs, states=("FULFILLED", "UNFULFILLED", "UNKNOWN"), inputs=("abc",), flags=(True, False)):
    """every tree  group > segment > free-text element  over the given expression strings (keys [1] for the element, [2] for the segment, [3] for the
    group) x every assignment of the states to the keys that occur x both flags: a small scope enumerated completely"""
    import itertools

    out = []
    for g, sg, de, inp in itertools.product(group_exprs, seg_exprs, de_exprs, inputs):
        keys = [k for k, x in (("1", de), ("2", sg), ("3", g)) if f"[{k}]" in x]
        for vals in itertools.product(states, repeat=len(keys)):
            rc = {k: "FULFILLED" for k in RC + ["492", "493"]}
            rc.update(dict(zip(keys, vals)))
            h = {k: "H" + k for k in HINTS}
            fc = {k: (True, None) for k in FCS + ["932", "934"]}
            CURRENT_PACKAGES.clear()
            evalimpl.set_cer(rc=rc, hints=h, fc=fc, packages={})
            cache = ExprCache()
            lines = [("G", "sg1", g, [("S", "seg1", sg, [("F", "de1", de, inp, None)])])]
            lt = "[" + "; ".join(node_term(n, cache) for n in lines) + "]"
            inv = {m for m in cache.inv.values() if m}
            for soll in flags:
                res = run_validation(lines, soll)
                ctx.dist("small_scope.outcome", "rows" if res[0] == "ok" else str(res[1]))
                out.append({"cer": (rc, h, fc), "packages": {}, "lines": lines, "soll": soll, "res": res, "cache": cache,
                            "term": f"({gcer(rc, h, fc)}, {lt}, {gbool(soll)}, {val_obs(res, inv)})"})
    return out


def check_val_correspondence(ctx, cases, tag):
    from vlib import runner

    n, bad, err = runner.run_case_files(tag, IMPORTS, "val_case", "val_check", [c["term"] for c in cases], shard=60)
    if err:
        ctx.broke("correspondence (validation) could not be evaluated in Coq", err)
    for i in bad[:10]:
        c = cases[i]
        ctx.broke("correspondence mismatch (validation): model and ahbicht differ",
                  str({"lines": c["lines"], "soll": c["soll"], "cer": c["cer"], "observed": summarize(c["res"])})[:3000])
    ctx.notes.setdefault("correspondence", {})["validation"] = {"cases": n, "mismatches": len(bad)}
    ctx.add_eval(n)
    return bad


def describe(case):
    return {"lines": case["lines"], "soll_is_required": case["soll"], "rc": case["cer"][0], "fc": {k: list(v) for k, v in case["cer"][2].items()},
            "packages": case.get("packages", PACKAGES), "optional_attributes_filled": bool(case.get("extra_attrs"))}


def replay_validation(path):
    import json

    r = json.load(open(path, encoding="utf-8"))
    inp = r["input"]

    def untuple(n):
        if isinstance(n, list):
            return tuple(untuple(x) for x in n) if n and isinstance(n[0], str) and n[0] in ("G", "S", "F", "P") else [untuple(x) for x in n]
        return n

    lines = [untuple(n) for n in inp["lines"]]
    EXTRA_ATTRS[0] = bool(inp.get("optional_attributes_filled"))
    evalimpl.set_cer(rc=inp["rc"], hints={k: "H" + k for k in HINTS}, fc={k: tuple(v) for k, v in inp["fc"].items()}, packages=dict(inp.get("packages", PACKAGES)))
    print("expected:", r.get("expected"))
    print("observed when recorded:", r.get("observed"))
    print("now:", summarize(run_validation(lines, inp["soll_is_required"])))
    return 0
