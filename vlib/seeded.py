"""
Mutation rehearsal: apply each /verif/seeded/<name>/patch.diff to /repo, run the checks named in its meta.json
(default: the property it breaks; --all: every claimed check), undo the patch, record what fired.
usage: /venv/bin/python -m vlib.seeded [name ...] [--all] [--tier quick]
"""
import json
import os
import subprocess
import sys
import time

ROOT = os.path.dirname(os.path.dirname(os.path.abspath(__file__)))
SEEDED = os.path.join(ROOT, "seeded")
REPO = "/repo"


def sh(cmd, **kw):
    return subprocess.run(cmd, shell=True, capture_output=True, text=True, **kw)


def main(argv):
    names = [a for a in argv if not a.startswith("--")] or sorted(d for d in os.listdir(SEEDED) if os.path.isdir(os.path.join(SEEDED, d)))
    run_all = "--all" in argv
    claimed = [c["property_id"] for c in json.load(open(os.path.join(ROOT, "MANIFEST.json")))["checks"]]
    if sh("git -C /repo status --porcelain").stdout.strip():
        print("refusing: /repo has uncommitted changes")
        return 2
    summary = {}
    # the evidence files must stay those of the unchanged tree: keep a copy and put it back afterwards
    import shutil
    import tempfile

    keep = tempfile.mkdtemp(prefix="evidence_keep_", dir=os.path.join(ROOT, "work"))
    shutil.copytree(os.path.join(ROOT, "evidence"), os.path.join(keep, "evidence"))
    for name in names:
        d = os.path.join(SEEDED, name)
        meta = json.load(open(os.path.join(d, "meta.json")))
        prop = meta["property"]
        checks = claimed if run_all else [prop]
        r = sh(f"git -C {REPO} apply {os.path.join(d, 'patch.diff')}")
        if r.returncode != 0:
            print(name, "patch does not apply:", r.stderr[:300])
            summary[name] = {"error": "patch does not apply"}
            continue
        fired = {}
        try:
            for c in checks:
                t0 = time.time()
                out = sh(f"cd {ROOT} && timeout 1800 ./check {c} --tier quick")
                lines = [l for l in out.stdout.splitlines() if l.startswith("VIOLATION") or l.startswith("KNOWN-FINDING")]
                fired[c] = {"exit": out.returncode, "violations": lines[:5], "with_failing_input": any("no-failing-input-found" not in l for l in lines if l.startswith("VIOLATION")),
                            "wall_s": round(time.time() - t0, 1)}
                print(f"{name}: check {c}: exit {out.returncode} " + (lines[0][:160] if lines else "(silent)"), flush=True)
                # does the replay file stand on its own? with the change: the violation shows again; without it (below): it does not
                rp = next((l.split("replay=")[1].split()[0] for l in lines if l.startswith("VIOLATION") and "no-failing-input-found" not in l), None)
                if rp:
                    rr = sh(f"cd {ROOT} && timeout 900 ./check {c} --replay {rp}")
                    fired[c]["replay"] = rp
                    fired[c]["replay_with_change_exit"] = rr.returncode
        finally:
            sh(f"git -C {REPO} checkout -- .")
        for c, f in fired.items():
            if f.get("replay"):
                rr = sh(f"cd {ROOT} && timeout 900 ./check {c} --replay {f['replay']}")
                f["replay_without_change_exit"] = rr.returncode
                print(f"{name}: replay of {c}: with the change exit {f['replay_with_change_exit']}, without it exit {rr.returncode}", flush=True)
        summary[name] = {"property": prop, "fired": fired, "caught_by_own_check": fired.get(prop, {}).get("exit") == 1}
        with open(os.path.join(d, "result.json"), "w") as f:
            json.dump(summary[name], f, indent=1)
    shutil.rmtree(os.path.join(ROOT, "evidence"))
    shutil.copytree(os.path.join(keep, "evidence"), os.path.join(ROOT, "evidence"))
    shutil.rmtree(keep)
    # regenerate Gen from the unchanged tree
    sh(f"cd {ROOT} && /venv/bin/python -m vlib.regen")
    print(json.dumps({k: v.get("caught_by_own_check") for k, v in summary.items()}, indent=1))
    return 0


if __name__ == "__main__":
    sys.exit(main(sys.argv[1:]))
