"""
Condition-expression trees for generators, oracles and Gallina printing.
A tree is ('L', key) or (op, a, b) with op in and/or/xor/then.
"""
import itertools

from vlib.runner import gbool, gopt, gtext

OPS = ("and", "or", "xor", "then")
LARK = {"and": "and_composition", "or": "or_composition", "xor": "xor_composition", "then": "then_also_composition"}
UNLARK = {v: k for k, v in LARK.items()}
GOP = {"and": "BAnd", "or": "BOr", "xor": "BXor", "then": "BThen"}
SYM = {"and": "U", "or": "O", "xor": "X"}


def kind(k):
    n = int(k)
    if 1 <= n <= 499 or 2000 <= n <= 2499:
        return "rc"
    if 500 <= n <= 900:
        return "hint"
    if 901 <= n <= 999:
        return "fc"
    return "bad"


def leaves(t):
    return [t[1]] if t[0] == "L" else leaves(t[1]) + leaves(t[2])


def size(t):
    return 1 if t[0] == "L" else size(t[1]) + size(t[2])


def trees(n, keys, ops=OPS):
    """all binary trees with n leaves"""
    if n == 1:
        for k in keys:
            yield ("L", k)
        return
    for i in range(1, n):
        for a in trees(i, keys, ops):
            for b in trees(n - i, keys, ops):
                for op in ops:
                    yield (op, a, b)


def random_tree(rng, n, keys, ops=OPS, weights=None):
    if n == 1:
        return ("L", rng.choice(keys))
    i = rng.randint(1, n - 1)
    op = rng.choices(ops, weights)[0] if weights else rng.choice(ops)
    return (op, random_tree(rng, i, keys, ops, weights), random_tree(rng, n - i, keys, ops, weights))


def random_dom_tree(rng, n, rc, hints, fcs, p_then=0.25):
    """random tree in the domain of C04 (juxtaposition attaches one FC key to a hint leaf or an RC-carrying operand)"""
    if n == 1:
        pool = rng.choices([rc, hints, fcs], [5, 2, 2])[0]
        return ("L", rng.choice(pool))
    if n >= 2 and rng.random() < p_then:
        fc = ("L", rng.choice(fcs))
        if n == 2 and rng.random() < 0.3:
            other = ("L", rng.choice(hints))
        else:
            other = random_dom_tree(rng, n - 1, rc, hints, fcs, p_then)
            tries = 0
            while not carries(other) and tries < 20:
                other = random_dom_tree(rng, n - 1, rc, hints, fcs, p_then)
                tries += 1
            if not carries(other):
                other = ("L", rng.choice(rc)) if n == 2 else ("and", ("L", rng.choice(rc)), random_dom_tree(rng, max(n - 2, 1), rc, hints, fcs, p_then))
        return ("then", other, fc) if rng.random() < 0.8 else ("then", fc, other)
    i = rng.randint(1, n - 1)
    op = rng.choice(("and", "or", "xor"))
    return (op, random_dom_tree(rng, i, rc, hints, fcs, p_then), random_dom_tree(rng, n - i, rc, hints, fcs, p_then))


# ------------------------------------------------------------------ structural predicates (Python oracles, C04/C06/C07)
def carries(t):
    return kind(t[1]) == "rc" if t[0] == "L" else carries(t[1]) or carries(t[2])


def isleaf(t, kd):
    return t[0] == "L" and kind(t[1]) == kd


def dom(t):
    if t[0] == "L":
        return kind(t[1]) != "bad"
    if not (dom(t[1]) and dom(t[2])):
        return False
    if t[0] == "then":
        a, b = t[1], t[2]
        att = lambda x: isleaf(x, "hint") or carries(x)
        return (isleaf(a, "fc") and att(b)) or (isleaf(b, "fc") and att(a))
    return True


def valid(t):
    if t[0] == "L":
        return True
    if not (valid(t[1]) and valid(t[2])):
        return False
    if t[0] in ("or", "xor"):
        a, b = t[1], t[2]
        if (isleaf(a, "hint") and isleaf(b, "fc")) or (isleaf(a, "fc") and isleaf(b, "hint")):
            return False
        return carries(a) == carries(b)
    return True


def sem(t, rho, V):
    if t[0] == "L":
        return rho[t[1]] if kind(t[1]) == "rc" else V.NEUTRAL
    a, b = t[1], t[2]
    if t[0] == "and":
        return sem(a, rho, V) & sem(b, rho, V)
    if t[0] == "or":
        return sem(a, rho, V) | sem(b, rho, V)
    if t[0] == "xor":
        return sem(a, rho, V) ^ sem(b, rho, V)
    x = b if isleaf(a, "fc") else a
    return sem(x, rho, V)


def rd(t, rho, V):
    """direct reading (interpretation S1) of the collected format constraints: nested tuple or None"""
    if t[0] == "L":
        return ("K", t[1]) if kind(t[1]) == "fc" else None
    a, b = t[1], t[2]

    def join(op, x, y):
        if x is None:
            return y
        if y is None:
            return x
        return (op, x, y)

    if t[0] == "then":
        k, x = (a, b) if isleaf(a, "fc") else (b, a)
        if sem(x, rho, V) == V.FULFILLED or isleaf(x, "hint"):
            return join("and", ("K", k[1]), rd(x, rho, V))
        return None
    return join(t[0], rd(a, rho, V), rd(b, rho, V))


def beval(f, beta):
    if f[0] in ("K", "L"):
        return beta[f[1]]
    x, y = beval(f[1], beta), beval(f[2], beta)
    return (x and y) if f[0] == "and" else (x or y) if f[0] == "or" else (x != y)


# ------------------------------------------------------------------ conversions
def to_lark(t):
    from lark import Token, Tree

    if t[0] == "L":
        return Tree("condition", [Token("CONDITION_KEY", t[1])])
    return Tree(LARK[t[0]], [to_lark(t[1]), to_lark(t[2])])


def from_lark(tree):
    """Lark tree over condition nodes -> tuple tree (None if other node kinds occur)"""
    if tree.data == "condition":
        return ("L", str(tree.children[0].value))
    if tree.data in UNLARK and len(tree.children) == 2:
        a, b = from_lark(tree.children[0]), from_lark(tree.children[1])
        if a is None or b is None:
            return None
        return (UNLARK[tree.data], a, b)
    return None


def to_gallina(t):
    if t[0] == "L":
        return f"(EAtom {gtext(t[1])})"
    return f"(EBin {GOP[t[0]]} {to_gallina(t[1])} {to_gallina(t[2])})"


def to_string(t, rng=None, top=True):
    """fully bracketed rendering (always re-parses to the same tree)"""
    if t[0] == "L":
        return f"[{t[1]}]"
    a, b = to_string(t[1], rng, False), to_string(t[2], rng, False)
    if t[1][0] != "L":
        a = f"({a})"
    if t[2][0] != "L":
        b = f"({b})"
    if t[0] == "then":
        return f"{a}{b}"
    return f"{a} {SYM[t[0]]} {b}"


def show(t):
    return to_string(t)


# ------------------------------------------------------------------ content evaluation results
def gcer(rc, hints, fc):
    """rc: {key: state name}, hints: {key: str|None}, fc: {key: (bool, msg|None)} -> Gallina cer"""
    r = "[" + "; ".join(f"({gtext(k)}, C_{v})" for k, v in rc.items()) + "]"
    h = "[" + "; ".join(f"({gtext(k)}, {gopt(v, gtext)})" for k, v in hints.items()) + "]"
    f = "[" + "; ".join(f"({gtext(k)}, ({gbool(v[0])}, {gopt(v[1], gtext)}))" for k, v in fc.items()) + "]"
    return f"{{| c_rc := {r}; c_hints := {h}; c_fc := {f} |}}"


def assignments(keys, values):
    for vals in itertools.product(values, repeat=len(keys)):
        yield dict(zip(keys, vals))
