"""Gen_select: the selection loop of AhbExpressionTransformer._ahb_expression_async as a TABLE read off the loaded code (tie T for `select` of
Model/EvalAhb.v on a bounded domain).

The coroutine is executed on every list of 1..4 already evaluated parts, each part being one of: a fulfilled conditional part, an unfulfilled one, an
undetermined one, a bare requirement indicator. Each part carries its position as hint text, so the row records WHICH part is reported together with
its requirement outcome and conditional flag. Proofs/C09_gen.v compares the rows with `select` by vm_compute. The domain is bounded (340 lists): this
is a regenerated regression tie; the unbounded statements (C09_select ...) are theorems about `select` itself."""
import asyncio
import itertools

from vlib.translate import HEADER, gtext

KINDS = {"T": (True, True), "F": (False, True), "N": (None, None), "B": (True, False)}


def generate():
    from vlib import impl  # noqa: F401
    import ahbicht.content_evaluation  # noqa: F401
    from ahbicht.expressions.ahb_expression_evaluation import AhbExpressionTransformer
    from ahbicht.models.enums import ModalMark
    from ahbicht.models.evaluation_results import (AhbExpressionEvaluationResult, FormatConstraintEvaluationResult,
                                                    RequirementConstraintEvaluationResult)

    def gob(b):
        return "None" if b is None else f"(Some {str(b).lower()})"

    rows = []
    for n in (1, 2, 3, 4):
        for kinds in itertools.product("TFNB", repeat=n):
            parts = [AhbExpressionEvaluationResult(
                requirement_indicator=ModalMark.MUSS,
                requirement_constraint_evaluation_result=RequirementConstraintEvaluationResult(
                    requirement_constraints_fulfilled=KINDS[k][0], requirement_is_conditional=KINDS[k][1], format_constraints_expression=None, hints=f"p{i}"),
                format_constraint_evaluation_result=FormatConstraintEvaluationResult(format_constraints_fulfilled=True, error_message=None)) for i, k in enumerate(kinds)]
            try:
                # pylint: disable=protected-access
                r = asyncio.run(AhbExpressionTransformer()._ahb_expression_async(list(parts)))
                rc = r.requirement_constraint_evaluation_result
                res = f"Ok ({gtext(rc.hints)}, {gob(rc.requirement_constraints_fulfilled)}, {gob(rc.requirement_is_conditional)})"
            except BaseException as e:  # pylint: disable=broad-except
                if isinstance(e, (KeyboardInterrupt, SystemExit, MemoryError)):
                    raise
                res = f"Exn {impl.exc_class(e)}"
            ins = "; ".join(f"({gob(KINDS[k][0])}, {gob(KINDS[k][1])})" for k in kinds)
            rows.append(f"  ([{ins}], {res})")
    return (HEADER.format(src="expressions/ahb_expression_evaluation.py (AhbExpressionTransformer._ahb_expression_async, executed)")
            + "(* parts as (requirement outcome, conditional flag), the i-th part carrying the hint text \"p<i>\"; result: hint text, outcome and flag of the reported part *)\n"
            "Definition select_rows : list (list (option bool * option bool) * result (text * option bool * option bool)) := [\n" + ";\n".join(rows) + "\n].\n")
