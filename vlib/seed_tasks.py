"""
Writes the task texts for one round of seeded changes (one per property) and creates the scratch worktrees.
usage: python3 -m vlib.seed_tasks <suffix>      e.g. f  ->  /tmp/seed6/Cxx.txt, worktrees /tmp/seed_Cxxf, output /tmp/seed_out/Cxxf
The sub-agents get ONLY the text of the property, the list of earlier attempts (so that they pick another mechanism) and their own
worktree; nothing from /verif.
"""
import json
import os
import subprocess
import sys

ROOT = os.path.dirname(os.path.dirname(os.path.abspath(__file__)))


def main(suffix):
    props = {json.loads(l)["id"]: json.loads(l) for l in open(os.path.join(ROOT, "properties.jsonl"))}
    tdir = f"/tmp/seed_{suffix}_tasks"
    os.makedirs(tdir, exist_ok=True)
    os.makedirs("/tmp/seed_out", exist_ok=True)
    for cid, p in props.items():
        prev = []
        for d in sorted(os.listdir(os.path.join(ROOT, "seeded"))):
            if d[:3] == cid and os.path.exists(os.path.join(ROOT, "seeded", d, "meta.json")):
                m = json.load(open(os.path.join(ROOT, "seeded", d, "meta.json")))
                prev.append((",".join(os.path.basename(x) for x in m.get("files", [])), m.get("summary", "")[:200].replace("\n", " ")))
        wt = f"/tmp/seed_{cid}{suffix}"
        out = f"/tmp/seed_out/{cid}{suffix}"
        txt = f"""You are working in a scratch git worktree of the Python library Hochfrequenz/ahbicht located at {wt} (it already exists; create nothing elsewhere except {out}/). Do NOT touch /repo, and do NOT read or touch /verif, /root/.claude, /root/.vp or any other directory under /tmp than your own two. IMPORTANT: the virtualenv /venv has ahbicht installed editable from /repo, so every python command you run must set PYTHONPATH={wt}/src:{wt} so that YOUR worktree's code is imported, e.g.
  cd {wt} && PYTHONPATH={wt}/src:{wt} /venv/bin/python -m pytest -p no:cacheprovider --timeout=900 -x -q
NEVER use `git stash` (the stash is shared by all worktrees of this repository and other jobs run concurrently). To run something on the ORIGINAL code, save your change with `git -C {wt} diff > {out}/patch.diff`, undo it with `git -C {wt} apply -R {out}/patch.diff`, run, and re-apply it with `git -C {wt} apply {out}/patch.diff`.

The library is expected to satisfy this property:

  {cid}: {p['title']}
  {p['statement']}
  (quantified over: {p['quantifier']['text']})
  Relevant code: {', '.join(p['anchors']['files'])}; observe at: {', '.join(p['anchors']['observe_at'])}

Task: make ONE small, realistic change to the library source (the kind of thing that slips in with a refactoring, an optimisation, a 'tidy-up', a dependency-upgrade workaround, a logging/diagnostics improvement or a 'small feature' -- a plausible commit, no comments that give it away) that BREAKS this property, such that
  - the package still imports and the full existing test suite still passes (532 passed) with your change,
  - the breakage needs something specific to manifest (a particular shape or size of input, a particular history or schedule, a particular interleaving of asynchronous evaluators, a multi-step sequence of operations, a particular combination of values, a rarely used but documented spelling, or two cooperating sites that each look fine alone) -- not something every call trips over; subtle is better than loud: prefer a wrong VALUE over an exception, and a narrow trigger over a broad one,
  - the violating inputs are ones the property explicitly talks about (inside its quantifier),
  - it is a DIFFERENT mechanism, code site and clause of the property than these earlier attempts (do not repeat them; read the statement again and pick a clause or an input dimension none of them touched):
""" + "".join(f"      * [{f}] {s} ...\n" for f, s in prev) + f"""
Then write a self-contained demonstration {out}/demo.py (run with the PYTHONPATH above) that checks the property on concrete inputs through the public API: it must print PASS and exit 0 on the ORIGINAL code and print FAIL with the offending input(s), expected vs observed, and exit 1 on the CHANGED code. Verify both, and verify the test suite with the change.

Deliverables in {out}/: patch.diff (`git -C {wt} diff > patch.diff`; it must apply to HEAD with `git apply`), demo.py, and meta.json with keys: property ("{cid}"), summary (2-4 sentences: what was changed and why it breaks the property), files (list of changed paths), needs_to_manifest, why_tests_pass, ran (the commands you ran and their outcomes). Leave the worktree WITH the change applied. Reply with a short numbered summary (change, effect, what it needs to manifest, why the suite passes, demo result)."""
        open(os.path.join(tdir, cid + ".txt"), "w").write(txt)
        if not os.path.exists(wt):
            subprocess.run(f"git -C /repo worktree add --detach {wt} HEAD -q", shell=True, check=True)
    print(tdir)


if __name__ == "__main__":
    main(sys.argv[1])
