"""Generators of condition-expression strings (well-formed, nearly well-formed, garbage) and Lark-tree printing."""
import itertools

from vlib.runner import gopt, gtext

OPSP = {"O": ["O", "o", "∨"], "X": ["X", "x", "⊻"], "U": ["U", "u", "∧"]}
WS = [" ", "\t", "\n", "\r", "\x0c"]
GOP = {"or_composition": "BOr", "xor_composition": "BXor", "and_composition": "BAnd", "then_also_composition": "BThen"}


def lark_to_gallina(tree):
    """Lark tree of the condition grammar -> Gallina term of type expr (raises ValueError on unknown nodes)"""
    from lark import Token, Tree

    if isinstance(tree, Tree):
        if tree.data in GOP and len(tree.children) == 2:
            return f"(EBin {GOP[tree.data]} {lark_to_gallina(tree.children[0])} {lark_to_gallina(tree.children[1])})"
        toks = tree.children
        if tree.data == "condition" and len(toks) == 1 and isinstance(toks[0], Token) and toks[0].type == "CONDITION_KEY":
            return f"(EAtom (AKey {gtext(str(toks[0]))}))"
        if tree.data == "time_condition" and len(toks) == 1 and isinstance(toks[0], Token) and toks[0].type == "TIME_CONDITION_KEY":
            return f"(EAtom (ATime {gtext(str(toks[0]))}))"
        if tree.data == "package" and 1 <= len(toks) <= 2 and all(isinstance(t, Token) for t in toks) and toks[0].type == "PACKAGE_KEY":
            rep = str(toks[1]) if len(toks) == 2 else None
            if rep is not None and toks[1].type != "REPEATABILITY":
                raise ValueError("package child")
            return f"(EAtom (APkg {gtext(str(toks[0]))} {gopt(rep, gtext)}))"
    raise ValueError(f"unexpected node {tree!r}")


def random_atom(rng, kinds=("key", "key", "key", "pkg", "pkgrep", "time")):
    k = rng.choice(kinds)
    ws = lambda: "".join(rng.choice(WS[:2]) for _ in range(rng.choice((0, 0, 0, 1, 2))))
    n = str(rng.choice((1, 2, 7, 12, 45, 499, 501, 902, 999, 2001, 0, 12345)))
    if k == "key":
        return f"[{ws()}{n}{ws()}]"
    if k == "pkg":
        return f"[{ws()}{n}P{ws()}]"
    if k == "pkgrep":
        return f"[{ws()}{n}P{ws()}{rng.choice((0, 1, 10))}..{rng.choice((1, 5, 17))}{ws()}]"
    return f"[{ws()}UB{rng.choice('123')}{ws()}]"


def render_tokens(rng, toks, spaced=0.3):
    """toks over {'A','O','X','U','(',')'} -> string with random spelling / white space"""
    out = []
    for t in toks:
        if t == "A":
            out.append(random_atom(rng))
        elif t in OPSP:
            out.append(rng.choice(OPSP[t]))
        else:
            out.append(t)
        if rng.random() < spaced:
            out.append(rng.choice(WS) * rng.choice((1, 1, 2)))
    pre = rng.choice(WS) if rng.random() < 0.1 else ""
    return pre + "".join(out)


def token_sequences(maxlen, alphabet=("A", "O", "X", "U", "(", ")")):
    for n in range(0, maxlen + 1):
        yield from itertools.product(alphabet, repeat=n)


def random_wf_tokens(rng, n_atoms, depth=0):
    """well-formed token list with n_atoms atoms"""
    if n_atoms == 1:
        t = ["A"]
        if rng.random() < 0.15 and depth < 6:
            t = ["("] + t + [")"]
        return t
    i = rng.randint(1, n_atoms - 1)
    l, r = random_wf_tokens(rng, i, depth + 1), random_wf_tokens(rng, n_atoms - i, depth + 1)
    op = rng.choice(("O", "X", "U", "U", None))
    t = l + ([op] if op else []) + r
    if rng.random() < 0.3 and depth < 6:
        t = ["("] + t + [")"]
    return t


MALFORMED = [
    "[∧B1]", "[∧B2]", "[∨B1]", "[⊻B3]", "[uB1]", "[Ub2]", "[ub3]", "[UB∧]", "[U∧1]", "[∧]", "[1∧]", "[1P∧]", "[1p]", "[O1]", "[1]U[∧B1]", "([∧B3])", "[UB1]∧[∧B1]",
    "", " ", "[]", "[ ]", "[1", "1]", "[1]]", "[[1]]", "([1]", "[1])", "()", "(())", "[1]U", "U[1]", "[1]UU[2]", "[1]U O[2]", "[1 2]", "[1P 2]",
    "[12 P]", "[1P0..0]", "[1P1..0]", "[1P1...2]", "[1P1.2]", "[1P..2]", "[1P1..]", "[P1]", "[UB4]", "[UB0]", "[ub1]", "[UB 1]", "[U B1]", "[UB1",
    "[1]\x0b[2]", "[1]\xa0[2]", "[1] [2]", "[１]", "[٣]", "[1P٣..4]", "[1P1..٣]", "[1P1..1٣]", "[1]Ｕ[2]", "[1]ſ[2]", "[1]&[2]", "[1]and[2]",
    "[1]U[2]X", "X", "O", "[1]∧", "∨[1]", "[1]⊻⊻[2]", "[-1]", "[+1]", "[1.5]", "[1_0]", "[0x1]", "[1]U([2]", "[1]U[2])", ")[1](", "[1]()[2]", "(([1]))",
    "[1]\x00[2]", "[1]​[2]", "﻿[1]", "[1]u[2]o[3]x[4]", "[1][2][3]", "([1])([2])", "[1]([2])", "([1])[2]", "[1PP]", "[1P1..2P]", "[1p]", "[12P1..3]x[UB2]",
]


#: characters with a meaning to str.format, %-formatting, regular expressions, shells, logging and JSON: a rejected input
#: is echoed into messages and logs, so these are the ones a message builder can trip over
META = "{}%\\'\"$*?+^|<>#@~&=!/:`\x00\x7f\U0001f600\ud7ff"
MALFORMED_META = ["Muss {1}", "Muss [1] }", "{", "}", "{}", "{0}", "{0.__class__}", "%s", "%(x)s", "%", "Muss [1] %d", "[1] U [2] }", "X [1] U [2] {foo}",
                  "\\", "[1]\\", "Muss \\d", "'", '"', "$1", "[1]*", "[1]+", "[1]?", "^[1]$", "[1]|[2]", "[1]&&[2]", "Muss [1] # x", "`", "\x00", "Muss\x00[1]",
                  "[1]{2}", "[{1}]", "[%1]", "[1%]", "Muss [1]{", "Soll [1] {}", "Kann [1] %", "M [1] {0}", "{requirement_indicators}", "{characters}"]


def mutate(rng, s):
    if not s:
        return rng.choice("[]()UOX1P. ")
    i = rng.randrange(len(s))
    k = rng.choice(("del", "dup", "swap", "ins", "respell", "respell"))
    if k == "respell":
        # another spelling of the same letter at a place where spellings are NOT interchangeable (inside a key, a package key, a time condition):
        # [UB1] -> [∧B1] / [uB1] / [Ub1], [1P] -> [1p], [UB1] -> [OB1]
        RESPELL = {"U": "∧u", "∧": "Uu", "u": "U∧", "O": "∨o", "∨": "Oo", "o": "O∨", "X": "⊻x", "⊻": "Xx", "x": "X⊻", "P": "p", "B": "b", "1": "１", "2": "٢"}
        inside = [j for j, c in enumerate(s) if c in RESPELL and s.rfind("[", 0, j) > s.rfind("]", 0, j)]
        if inside:
            j = rng.choice(inside)
            return s[:j] + rng.choice(RESPELL[s[j]]) + s[j + 1:]
        k = "ins"
    if k == "del":
        return s[:i] + s[i + 1:]
    if k == "dup":
        return s[:i] + s[i] + s[i:]
    if k == "swap" and i + 1 < len(s):
        return s[:i] + s[i + 1] + s[i] + s[i + 2:]
    return s[:i] + rng.choice("[]()UOXuox∧∨⊻1P. \tB9") + s[i:]


_CONFUSABLE = None


def confusable_indicators():
    """Requirement indicators in which a letter (or letter pair) is replaced by a character that str.upper(), str.lower(), str.casefold() or a Unicode
    normalisation form maps onto it: 'Muß' (upper() = 'MUSS'), 'Muſs', 'Kann' with the Kelvin sign, full-width and enclosed letters ... The regular
    expressions of the grammar and Python's string methods disagree on some of them, so a shortcut that normalises the text itself instead of asking the
    parser accepts what the parser rejects (or the other way round). Bare and followed by a condition."""
    global _CONFUSABLE
    if _CONFUSABLE is None:
        import unicodedata

        words = ["Muss", "Soll", "Kann", "M", "S", "K", "X", "O", "U"]
        pieces = sorted({w[i:j].upper() for w in words for i in range(len(w)) for j in range(i + 1, min(len(w), i + 2) + 1)})
        table = {}
        for cp in range(0x80, 0x30000):
            c = chr(cp)
            if 0xD800 <= cp <= 0xDFFF:
                continue
            imgs = {c.upper(), c.lower().upper(), c.casefold().upper()}
            for form in ("NFKC", "NFKD"):
                imgs.add(unicodedata.normalize(form, c).upper())
            for img in imgs:
                if img in pieces:
                    table.setdefault(img, []).append(c)
        out = []
        for w in words:
            for piece, chars in table.items():
                start = 0
                while True:
                    i = w.upper().find(piece, start)
                    if i < 0:
                        break
                    for c in chars[:6]:
                        out.append(w[:i] + c + w[i + len(piece):])
                    start = i + 1
        seen, res = set(), []
        for x in out:
            for y in (x, x + "[1]", x + " [1] U [2]"):
                if y not in seen:
                    seen.add(y)
                    res.append(y)
        _CONFUSABLE = res
    return _CONFUSABLE


def garbage(rng, n):
    alpha = "[]()UOXuox∧∨⊻0123456789P.B \t\nMSKabc-_,;ſK٣１" + META
    return "".join(rng.choice(alpha) for _ in range(n))


def regression_strings():
    """corpus/strings.json: strings on which a past (seeded) defect showed; they run first"""
    import json
    import os

    path = os.path.join(os.path.dirname(os.path.dirname(os.path.abspath(__file__))), "corpus", "strings.json")
    return [x for x in json.load(open(path, encoding="utf-8")) if isinstance(x, str)] if os.path.exists(path) else []


def mined_keys():
    """condition keys that occur as literals in ahbicht's own source (candidates for special treatment somewhere): generators mix them into
    their key pools so that a rule which singles out particular keys is exercised"""
    import ast
    import os

    root = os.path.join(os.environ.get("VERIF_REPO", "/repo"), "src", "ahbicht")
    found = set()
    for dp, _dn, fns in os.walk(root):
        for fn in fns:
            if not fn.endswith(".py"):
                continue
            try:
                import warnings

                with warnings.catch_warnings():
                    warnings.simplefilter("ignore")
                    tree = ast.parse(open(os.path.join(dp, fn), encoding="utf-8").read())
            except (SyntaxError, OSError):
                continue
            for x in ast.walk(tree):
                if isinstance(x, ast.Constant):
                    v = x.value
                    if isinstance(v, bool):
                        continue
                    if isinstance(v, int) and 1 <= v <= 2499:
                        found.add(str(v))
                    elif isinstance(v, str):
                        import re

                        for m in re.findall(r"(?<![0-9A-Za-z_.])([1-9][0-9]{0,3})(?![0-9A-Za-z_.])", v):
                            if 1 <= int(m) <= 2499:
                                found.add(m)
    return sorted(found, key=int)
