"""Gen_status: the status step of the validation as a TABLE read off the loaded code (tie T for `segment_level` and `validate_freetext` of
Model/Validate.v).

get_segment_level_requirement_validation_value and validate_data_element_freetext are executed for every requirement indicator x every way the
node's own expression can come out (fulfilled / unfulfilled / undetermined condition, bare indicator, invalid expression) x every parent status
(none, required, optional, forbidden) x both values of soll_is_required (x entered input absent / empty / filled for the free-text element). The rows
record the reported status, whether a hint is reported, and for the element the format verdict and data type, or the exception class. Proofs/C13_gen.v
compares them with the model by vm_compute."""
import asyncio

from vlib.translate import HEADER

INDS = [("Muss", "I_MUSS"), ("Soll", "I_SOLL"), ("Kann", "I_KANN"), ("X", "I_PX"), ("O", "I_PO"), ("U", "I_PU")]
MODES = [("EvF", "[1]", "FULFILLED"), ("EvU", "[1]", "UNFULFILLED"), ("EvN", "[1]", "UNKNOWN"), ("EvBare", "", "FULFILLED"), ("EvInvalid", "[1] O [501]", "FULFILLED")]
PARENTS = [None, "IS_REQUIRED", "IS_OPTIONAL", "IS_FORBIDDEN"]


def generate():
    from vlib import evalimpl, impl
    import ahbicht.content_evaluation  # noqa: F401
    from maus.models.edifact_components import DataElementFreeText, Segment
    from ahbicht.models.validation_values import RequirementValidationValue as R
    from ahbicht.validation.validation import get_segment_level_requirement_validation_value, validate_data_element_freetext

    def run(fn):
        try:
            return ("ok", asyncio.run(fn()))
        except BaseException as e:  # pylint: disable=broad-except
            if isinstance(e, (KeyboardInterrupt, SystemExit, MemoryError)):
                raise
            return ("exn", impl.exc_class(e))

    def gpar(p):
        return "None" if p is None else f"(Some {p})"

    seg_rows, de_rows = [], []
    try:
        for spelled, ind in INDS:
            for mode, cond, state in MODES:
                expr = spelled + cond
                evalimpl.set_cer(rc={"1": state}, hints={"501": "H"}, fc={})
                for parent in PARENTS:
                    pr = None if parent is None else R[parent]
                    for soll in (True, False):
                        tag, v = run(lambda: get_segment_level_requirement_validation_value(Segment(discriminator="s", ahb_expression=expr, data_elements=[]), pr, soll))
                        res = f"Exn {v}" if tag == "exn" else f"Ok ({v.requirement_validation.name}, {str(v.hints is not None).lower()})"
                        seg_rows.append(f"  ({ind}, {mode}, {gpar(parent)}, {str(soll).lower()}, {res})")
                        for imode, inp in (("0", None), ("1", ""), ("2", "abc")):
                            de = DataElementFreeText(discriminator="d", ahb_expression=expr, entered_input=inp, data_element_id="0001")
                            tag, v = run(lambda: validate_data_element_freetext(de, pr, soll))
                            if tag == "exn":
                                res = f"Exn {v}"
                            else:
                                x = v.validation_result
                                res = (f"Ok ({x.requirement_validation.name}, {str(bool(x.format_validation_fulfilled)).lower()}, {str(x.hints is not None).lower()}, "
                                       f"DT_{x.data_element_data_type.name})")
                            de_rows.append(f"  ({ind}, {mode}, {imode}, {gpar(parent)}, {str(soll).lower()}, {res})")
    finally:
        evalimpl.set_cer()
    return (HEADER.format(src="validation/validation.py (get_segment_level_requirement_validation_value, validate_data_element_freetext, executed)")
            + "From Ahb Require Import Gen.Gen_valmaps Model.Validate.\n"
            "(* how the node's own expression comes out: condition fulfilled / unfulfilled / undetermined, bare indicator, invalid expression *)\n"
            "Inductive evmode := EvF | EvU | EvN | EvBare | EvInvalid.\n"
            "(* indicator, outcome of the own expression, parent status, soll_is_required -> reported status, is a hint reported *)\n"
            "Definition seg_rows : list (indicator * evmode * option rvv * bool * result (rvv * bool)) := [\n" + ";\n".join(seg_rows) + "\n].\n"
            "(* ..., entered input (0 absent / 1 empty / 2 filled), ... -> status, format verdict, is a hint reported, data type *)\n"
            "Definition de_rows : list (indicator * evmode * nat * option rvv * bool * result (rvv * bool * bool * dtype)) := [\n" + ";\n".join(de_rows) + "\n].\n")
